"""Genes kernel of the C02 check (coq/theories/Genes): histories of gene-editing operations drawn while they
are executed on a real cobra.Model, observation of the real object graph after every step, Coq term printer,
shrinker, and `run(rep, args, rng)` which core.main calls for C02.

Case (JSON-able): {"nr": 4, "ops": [[name, args...], ...]}.  Reactions are "R<k>" (all created up front, outside
the model, without a rule), gene identifiers are "g<k>".
  ["SetRule", r, tree, via]          via: "str" (gene_reaction_rule = text) | "gpr" (reaction.gpr = GPR)
  ["AddRxn", r]
  ["RemoveRxn", r, orphans, via]     via: "obj" | "id" | "method" (reaction.remove_from_model)
  ["RemoveGenes", [k...], remove_reactions, via]   via: "id" | "obj" | "fresh" (Gene objects made for the call)
  ["RenameGenes", [[k, v]...]]       (a dict: keys are distinct)
  ["Repair"]
tree: None | ["g", k] | ["and", [tree...]] | ["or", [tree...]]"""
import ast
import json
import logging
import os
import sys
import time
import warnings

sys.path.insert(0, os.path.dirname(os.path.abspath(__file__)))
import common as K  # noqa: E402

sys.path.insert(0, os.path.join(K.REPO, "src"))
logging.getLogger("cobra").setLevel(logging.ERROR)

HEADER = """From Coq Require Import ZArith List Bool.
From Cobra.Genes Require Import Model Check.
Import ListNotations.
Open Scope Z_scope."""
CASE_TYPE = "obs * list (op * obs)"
EXTRA_TARGETS = ["theories/Genes/Check.vo"]
CODES = {1: "genes kernel: model and implementation differ",
         3: "genes kernel: gene cross references inconsistent (C02)"}
NG = 7          # identifiers g0 .. g6
CORPUS = os.path.join(K.VERIF, "corpus", "C02", "genes")


# ------------------------------------------------------------------ rules
def tree_str(t, top=True):
    if t is None:
        return ""
    if t[0] == "g":
        return "g%d" % t[1]
    s = (" %s " % t[0]).join(tree_str(x, False) for x in t[1])
    return s if top else "(" + s + ")"


def tree_term(t):
    if t is None:
        return "None"
    return "(Some %s)" % _tt(t)


def _tt(t):
    if t[0] == "g":
        return "(TGene %d)" % t[1]
    return "(TBool %s [%s])" % ("true" if t[0] == "and" else "false", "; ".join(_tt(x) for x in t[1]))


def tree_genes(t):
    if t is None:
        return set()
    if t[0] == "g":
        return {t[1]}
    out = set()
    for x in t[1]:
        out |= tree_genes(x)
    return out


def gnum(s):
    if isinstance(s, str) and len(s) > 1 and s[0] == "g" and s[1:].isdigit():
        return int(s[1:])
    return None


def ast_tree(node):
    """reaction._gpr.body -> tree; raises ValueError for anything else."""
    if node is None:
        return None
    if isinstance(node, ast.Name):
        k = gnum(node.id)
        if k is None:
            raise ValueError(node.id)
        return ["g", k]
    if isinstance(node, ast.BoolOp):
        return ["and" if isinstance(node.op, ast.And) else "or", [ast_tree(v) for v in node.values]]
    raise ValueError(type(node).__name__)


def op_term(o):
    n, a = o[0], o[1:]
    b = lambda x: "true" if x else "false"  # noqa
    if n == "SetRule":
        return "(SetRule %d %s)" % (a[0], tree_term(a[1]))
    if n == "AddRxn":
        return "(AddRxn %d)" % a[0]
    if n == "RemoveRxn":
        return "(RemoveRxn %d %s)" % (a[0], b(a[1]))
    if n == "RemoveGenes":
        return "(RemoveGenes [%s] %s)" % ("; ".join(str(k) for k in a[0]), b(a[1]))
    if n == "RenameGenes":
        return "(%s [%s])" % ("RenameGenesFixed" if VARIANT["rename"] == "repaired" else "RenameGenes",
                              "; ".join("(%d, %d)" % (k, v) for k, v in a[0]))
    if n == "Repair":
        return "Repair"
    raise ValueError(n)


def cop_term(o):
    return o[0] if o[0] in ("Enter", "Exit") else "(Do %s)" % op_term(o)


# Which rename_genes is under test: "as-implemented" (a gene marked for removal is always removed: known finding
# C02-rename-genes-chain) or "repaired" (fixes/rename-genes-chain.patch).  Both are modelled (RenameGenes /
# RenameGenesFixed in coq/theories/Genes/Model.v); one probe decides, then every step must match that variant.
VARIANT = {"rename": "as-implemented"}


def probe_variant():
    im = Impl(1)
    for o in (["SetRule", 0, ["and", [["g", 0], ["g", 1]]], "str"], ["AddRxn", 0], ["RenameGenes", [[0, 1], [1, 0]]]):
        im.apply(o)
    VARIANT["rename"] = "repaired" if sorted(g.id for g in im.model.genes) == ["g0", "g1"] else "as-implemented"
    return VARIANT["rename"]


# ------------------------------------------------------------------ implementation runner
class Impl:
    def __init__(self, nr=4):
        import cobra
        self.cobra = cobra
        self.model = cobra.Model("genes")
        self.nr = nr
        self.rx = []
        for k in range(nr):
            r = cobra.Reaction("R%d" % k)
            r.add_metabolites({cobra.Metabolite("M%d" % k, compartment="c"): -1.0})
            self.rx.append(r)

    def apply(self, o):
        n, a = o[0], o[1:]
        M = self.model
        from cobra.manipulation import remove_genes, rename_genes
        from cobra.core.gene import GPR, Gene
        with warnings.catch_warnings():
            warnings.simplefilter("ignore")
            try:
                if n == "SetRule":
                    r = self.rx[a[0]]
                    if len(a) > 2 and a[2] == "gpr":
                        r.gpr = GPR.from_string(tree_str(a[1]))
                    else:
                        r.gene_reaction_rule = tree_str(a[1])
                elif n == "AddRxn":
                    M.add_reactions([self.rx[a[0]]])
                elif n == "RemoveRxn":
                    r = self.rx[a[0]]
                    via = a[2] if len(a) > 2 else "obj"
                    if via == "method" and r._model is not None:
                        r.remove_from_model(remove_orphans=bool(a[1]))
                    elif via == "id":
                        M.remove_reactions([r.id], remove_orphans=bool(a[1]))
                    else:
                        M.remove_reactions([r], remove_orphans=bool(a[1]))
                elif n == "RemoveGenes":
                    via = a[2] if len(a) > 2 else "id"
                    ids = ["g%d" % k for k in a[0]]
                    if via == "obj":
                        l = [M.genes.get_by_id(i) if i in M.genes else Gene(i) for i in ids]
                    elif via == "fresh":
                        l = [Gene(i) for i in ids]
                    else:
                        l = ids
                    remove_genes(M, l, remove_reactions=bool(a[1]))
                elif n == "RenameGenes":
                    rename_genes(M, {"g%d" % k: "g%d" % v for k, v in a[0]})
                elif n == "Repair":
                    M.repair()
                elif n == "Enter":
                    M.__enter__()
                elif n == "Exit":
                    M.__exit__(None, None, None)
                else:
                    raise RuntimeError("unknown op " + n)
                return "Ok"
            except KeyError:
                return "RaiseKeyError"
            except Exception as e:  # noqa
                return "RaiseOther:" + type(e).__name__

    def observe(self, res="Ok"):
        M = self.model
        shape = True
        mg = list(M.genes)
        num = {id(r): k for k, r in enumerate(self.rx)}
        genes = []
        if len(M.genes._dict) != len(mg):
            shape = False
        for pos, g in enumerate(mg):
            k = gnum(g.id)
            if k is None:
                shape = False
                continue
            back = []
            for r in g._reaction:
                if id(r) in num:
                    back.append(num[id(r)])
                else:
                    shape = False
            try:
                lk = M.genes.get_by_id(g.id) is g and M.genes.index(g.id) == pos and M.genes.has_id(g.id)
            except (KeyError, ValueError):
                lk = False
            if g._model is not M and g._model is not None:
                shape = False
            genes.append({"id": k, "back": sorted(back), "mod": g._model is M, "lookup": bool(lk)})
        rx = []
        for k, r in enumerate(self.rx):
            inm = r._model is M
            listed = any(x is r for x in M.reactions)
            if inm != listed or (not inm and r._model is not None):
                shape = False
            try:
                rule = ast_tree(r._gpr.body)
            except ValueError:
                rule, shape = None, False
            if tree_str(rule) != r.gene_reaction_rule:
                shape = False
            if r.genes != frozenset(r._genes):
                shape = False
            ents = []
            for g in r._genes:
                gk = gnum(g.id)
                if gk is None or (g._model is not M and g._model is not None):
                    shape = False
                    continue
                if any(id(x) not in num for x in g._reaction) or g.reactions != frozenset(g._reaction):
                    shape = False
                ents.append({"id": gk, "in": any(x is g for x in mg), "back": r in g._reaction, "mod": g._model is M,
                             "nback": len(g._reaction)})
            ents.sort(key=lambda e: (e["id"], e["in"], e["back"], e["mod"], e["nback"]))
            rx.append({"id": k, "in": bool(inm and listed), "rule": rule, "genes": ents})
        return {"rx": rx, "genes": genes, "shape": bool(shape), "res": res}


def bt(x):
    return "true" if x else "false"


def obs_term(o):
    rx = "[" + "; ".join("mkR %d %s %s [%s]" % (
        r["id"], bt(r["in"]), tree_term(r["rule"]),
        "; ".join("mkE %d %s %s %s %d" % (e["id"], bt(e["in"]), bt(e["back"]), bt(e["mod"]), e["nback"])
                  for e in r["genes"])) for r in o["rx"]) + "]"
    gs = "[" + "; ".join("mkG %d [%s] %s %s" % (g["id"], "; ".join(str(x) for x in g["back"]), bt(g["mod"]),
                                                bt(g["lookup"])) for g in o["genes"]) + "]"
    res = o["res"] if o["res"] in ("Ok", "RaiseKeyError") else "RaiseOther"
    return "(mkO %s %s %s %s)" % (rx, gs, bt(o["shape"]), res)


def run_case(case):
    im = Impl(case.get("nr", 4))
    obs0 = im.observe()
    steps = []
    for o in case["ops"]:
        steps.append(im.observe(im.apply(o)))
    return obs0, steps


def case_term(case):
    obs0, steps = run_case(case)
    t = "(%s, [%s])" % (obs_term(obs0), "; ".join("(%s, %s)" % (op_term(o), obs_term(s))
                                                  for o, s in zip(case["ops"], steps)))
    return t, (obs0, steps)


# ------------------------------------------------------------------ generator
def rand_tree(rng, pool, depth=0):
    x = rng.random()
    if depth >= 2 or x < (0.3 if depth == 0 else 0.55):
        return ["g", rng.choice(pool)]
    n = rng.choice([2, 2, 2, 3])
    return [rng.choice(["and", "or"]), [rand_tree(rng, pool, depth + 1) for _ in range(n)]]


def gen_history(rng, length, nr=4, odd_p=0.15):
    im = Impl(nr)
    M = im.model
    ops = []
    W = {"SetRule": 26, "AddRxn": 14, "RemoveRxn": 9, "RemoveGenes": 14, "RenameGenes": 17, "Repair": 2}
    names = [n for n, w in W.items() for _ in range(w)]
    allg = list(range(NG))
    # most histories begin by putting a few reactions with rules into the model (ordinary, recorded operations)
    if rng.random() < 0.8:
        for r in rng.sample(range(nr), min(nr, rng.choice([1, 2, 2, 3]))):
            if len(ops) + 2 > length:
                break
            pre = [["SetRule", r, rand_tree(rng, allg[:rng.choice([3, 4, 7])]), "str"], ["AddRxn", r]]
            if rng.random() < 0.3:
                pre.reverse()
            for o in pre:
                im.apply(o)
                ops.append(o)

    def model_gene_ids():
        return [gnum(g.id) for g in M.genes if gnum(g.id) is not None]

    def in_model():
        return [k for k, r in enumerate(im.rx) if r._model is M]

    guard = 0
    while len(ops) < length and guard < length * 20:
        guard += 1
        n = rng.choice(names)
        odd = rng.random() < odd_p
        mg = model_gene_ids()
        o = None
        if n == "SetRule":
            r = rng.choice(in_model()) if (in_model() and rng.random() < 0.6) else rng.randrange(nr)
            if rng.random() < 0.1:
                t = None                                   # empty rule
            else:
                pool = mg if (mg and rng.random() < 0.55) else allg
                t = rand_tree(rng, pool)
            o = ["SetRule", r, t, rng.choice(["str", "str", "gpr"])]
        elif n == "AddRxn":
            det = [k for k in range(nr) if k not in in_model()]
            if odd and in_model():
                o = ["AddRxn", rng.choice(in_model())]      # already there: ignored
            elif det:
                o = ["AddRxn", rng.choice(det)]
        elif n == "RemoveRxn":
            c = in_model()
            if odd or not c:
                c = list(range(nr))                        # possibly not in the model: a warning, nothing else
            o = ["RemoveRxn", rng.choice(c), rng.random() < 0.5, rng.choice(["obj", "id", "method"])]
        elif n == "RemoveGenes":
            if not mg and not odd:
                continue
            cnt = rng.choice([1, 1, 1, 2, 2, 3])
            src = mg if mg else allg
            l = [rng.choice(src) for _ in range(cnt)]      # duplicates allowed
            if odd:
                l[rng.randrange(len(l))] = rng.choice(allg)   # possibly unknown
            o = ["RemoveGenes", l, rng.random() < 0.5, rng.choice(["id", "obj", "fresh"])]
        elif n == "RenameGenes":
            if not mg and not odd:
                continue
            cnt = rng.choice([1, 1, 2, 2, 3])
            d = []
            for _ in range(cnt):
                k = rng.choice(mg) if (mg and not (odd and rng.random() < 0.4)) else rng.choice(allg)
                if any(k == kk for kk, _ in d):
                    continue
                x = rng.random()
                unused = [g for g in allg if g not in mg]
                if x < 0.4 and unused:
                    v = rng.choice(unused)                  # a new identifier
                elif x < 0.5 and d:
                    v = d[-1][1]                            # the target of the previous key too
                elif x < 0.78 and mg:
                    v = rng.choice(mg)                      # an existing gene: merge (or identity)
                elif x < 0.85:
                    v = k                                   # identity
                else:
                    v = rng.choice(allg)
                d.append([k, v])
            if odd and len(d) >= 2 and rng.random() < 0.6:
                # a value that is another key: chains and swaps
                i, j = rng.sample(range(len(d)), 2)
                d[i][1] = d[j][0]
                if rng.random() < 0.5:
                    d[j][1] = d[i][0]
            if d:
                o = ["RenameGenes", d]
        elif n == "Repair":
            o = ["Repair"]
        if o is None:
            continue
        im.apply(o)
        ops.append(o)
    return {"nr": nr, "ops": ops}


# ------------------------------------------------------------------ evaluation, shrinking
def evaluate(cases):
    terms, impl = [], []
    for c in cases:
        t, ob = case_term(c)
        terms.append(t)
        impl.append(ob)
    res, faults = K.coq_eval_cases(HEADER, terms, CASE_TYPE, "failing", shard=25, timeout=900)
    return {i: lst for i, lst in res}, faults, impl


def simpler(case):
    """Candidates: one op dropped; one element of a list argument dropped; a subtree replaced by a child."""
    ops = case["ops"]
    out = []
    for i in range(len(ops) - 1):
        out.append(ops[:i] + ops[i + 1:])
    for i, o in enumerate(ops):
        if o[0] in ("RemoveGenes", "RenameGenes") and len(o[1]) > 1:
            for j in range(len(o[1])):
                out.append(ops[:i] + [[o[0], o[1][:j] + o[1][j + 1:]] + o[2:]] + ops[i + 1:])
        if o[0] == "SetRule" and o[2] is not None and o[2][0] != "g":
            for ch in o[2][1]:
                out.append(ops[:i] + [["SetRule", o[1], ch] + o[3:]] + ops[i + 1:])
    return [{"nr": case.get("nr", 4), "ops": x} for x in out]


def shrink(case, want, rounds=25):
    cur = case
    r, f, _ = evaluate([cur])
    if f or 0 not in r:
        return cur
    first = min(s for s, code in r[0] if code in want)
    cur = {"nr": cur.get("nr", 4), "ops": cur["ops"][:max(first, 1)]}
    for _ in range(rounds):
        cands = simpler(cur)
        if not cands:
            break
        try:
            r, f, _ = evaluate(cands)
        except Exception:
            break
        if f:
            break
        got = None
        for i in sorted(r):
            if any(code in want for _, code in r[i]):
                got = cands[i]
                break
        if got is None:
            break
        # keep only up to the first failing step again
        first = min(s for s, code in r[i] if code in want)
        cur = {"nr": got["nr"], "ops": got["ops"][:max(first, 1)]}
    return cur


def value_is_other_key(o):
    """rename_genes with a value that is also a different key (chains, swaps)."""
    if o[0] != "RenameGenes":
        return False
    keys = {k for k, _ in o[1]}
    return any(v in keys and v != k for k, v in o[1])


def signature(small, lst):
    """Signature of a shrunk failing case: the codes of its FIRST failing step only."""
    first = min(s for s, _ in lst)
    codes = sorted({c for s, c in lst if s == first})
    last = small["ops"][first - 1] if first >= 1 else ["init"]
    return {"kernel": "genes", "code": codes[0], "codes_at_step": codes, "op": last[0],
            "value_is_other_key": value_is_other_key(last)}, first


def load_corpus():
    out = []
    if os.path.isdir(CORPUS):
        for f in sorted(os.listdir(CORPUS)):
            if f.endswith(".json"):
                out.append(json.load(open(os.path.join(CORPUS, f)))["case"])
    return out


def run(rep, args, rng):
    """Called by core.main for C02: evaluates histories of the genes kernel and reports violations."""
    t0 = time.time()
    probe_variant()
    if args.replay:
        data = json.load(open(args.replay))
        if data.get("kernel") != "genes":
            return {"skipped": "replay of a case of the core kernel"}
        cases = [data["case"]]
    else:
        n, L = (300, 14) if args.tier == "quick" else (6000, 30)
        cases = load_corpus()
        n_corpus = len(cases)
        for _ in range(n):
            cases.append(gen_history(rng, rng.randrange(3, L + 1), nr=rng.choice([3, 4, 4, 5])))
    res, faults, impl = evaluate(cases)
    if faults:
        print("HARNESS FAULT (genes kernel): model evaluation failed:\n" + "\n".join(faults[:3]))
        rep.violation({"broken": True, "kernel": "genes"},
                      {"kernel": "genes", "broken_obligations": ["model evaluation (coqc on generated cases) failed: " +
                                                                 faults[0][-800:]],
                       "note": "the correspondence machinery of the genes kernel no longer runs; no failing input found"},
                      no_input=True)
    op_hist, res_hist, n_steps, distinct = {}, {}, 0, set()
    feat = {"rename_merge": 0, "rename_two_to_one": 0, "rename_value_is_other_key": 0, "rename_identity": 0,
            "rename_unknown_key": 0, "remove_genes_unknown": 0, "remove_genes_removing_reactions": 0,
            "set_rule_detached": 0, "set_rule_new_gene_in_model": 0, "set_rule_empty": 0, "orphan_gene_removed": 0,
            "add_again_after_removal": 0, "max_model_genes": 0}
    for c, (o0, steps) in zip(cases, impl):
        distinct.add(json.dumps(c, sort_keys=True))
        prev = o0
        removed_before = set()
        for o, s in zip(c["ops"], steps):
            op_hist[o[0]] = op_hist.get(o[0], 0) + 1
            res_hist[s["res"]] = res_hist.get(s["res"], 0) + 1
            n_steps += 1
            ids_prev = {g["id"] for g in prev["genes"]}
            ids_now = {g["id"] for g in s["genes"]}
            feat["max_model_genes"] = max(feat["max_model_genes"], len(ids_now))
            if o[0] == "RenameGenes":
                vals = [v for k, v in o[1] if k in ids_prev and k != v]
                feat["rename_merge"] += any(v in ids_prev for v in vals)
                feat["rename_two_to_one"] += len(vals) != len(set(vals))
                feat["rename_value_is_other_key"] += value_is_other_key(o)
                feat["rename_identity"] += any(k == v for k, v in o[1])
                feat["rename_unknown_key"] += any(k not in ids_prev for k, _ in o[1])
            elif o[0] == "RemoveGenes":
                feat["remove_genes_unknown"] += s["res"] == "RaiseKeyError"
                feat["remove_genes_removing_reactions"] += (sum(r["in"] for r in s["rx"]) < sum(r["in"] for r in prev["rx"]))
            elif o[0] == "SetRule":
                was_in = prev["rx"][o[1]]["in"]
                feat["set_rule_detached"] += not was_in
                feat["set_rule_empty"] += o[2] is None
                feat["set_rule_new_gene_in_model"] += bool(was_in and (ids_now - ids_prev))
            elif o[0] == "RemoveRxn":
                feat["orphan_gene_removed"] += bool(ids_prev - ids_now)
                if prev["rx"][o[1]]["in"]:
                    removed_before.add(o[1])
            elif o[0] == "AddRxn":
                feat["add_again_after_removal"] += (o[1] in removed_before and not prev["rx"][o[1]]["in"])
            prev = s
    seen, reported = set(), []
    n_fail = 0
    for idx in sorted(res):
        n_fail += 1
        lst = res[idx]
        first = min(s for s, _ in lst)
        codes = tuple(sorted({c for s, c in lst if s == first}))
        opname = cases[idx]["ops"][first - 1][0] if first >= 1 else "init"
        flag = value_is_other_key(cases[idx]["ops"][first - 1]) if first >= 1 else False
        key = (codes, opname, flag)
        if key in seen or len(seen) >= 8:
            continue
        seen.add(key)
        want = set(codes)
        small = cases[idx] if args.replay else shrink(cases[idx], want)
        r2, _, impl2 = evaluate([small])
        lst2 = r2.get(0) or lst
        sig, first2 = signature(small, lst2)
        replay = {"kernel": "genes", "case": small, "failed": CODES.get(sig["code"], str(sig["code"])),
                  "failing_steps": lst2,
                  "implementation_observation": {"initial": impl2[0][0], "after_each_op": impl2[0][1]},
                  "python": python_lines(small),
                  "how_to_read": "reaction k = 'R<k>' (all created outside the model, one metabolite each), gene "
                                 "identifier k = 'g<k>'; an observation lists model.genes (back = gene._reaction, mod = "
                                 "gene._model is the model, lookup = get_by_id gives this object) and for every reaction its "
                                 "rule and the elements of reaction._genes (in = the object is in model.genes, back = the "
                                 "gene lists the reaction); codes: 1 = differs from the Gallina model "
                                 "(coq/theories/Genes/Model.v), 3 = ginv_b (coq/theories/Genes/Check.v) fails on the "
                                 "observation",
                  "theorem": "coq/theories/Properties/C02.v (C02_genes_*)"}
        reported.append({"signature": sig, "status": rep.violation(sig, replay)})
    return {"histories": len(cases), "distinct_histories": len(distinct), "steps_observed": n_steps,
            "rename_genes_variant_under_test": VARIANT["rename"],
            "corpus_cases": 0 if args.replay else n_corpus, "op_distribution": op_hist, "result_distribution": res_hist,
            "features": feat, "histories_failing": n_fail, "reported": reported,
            "samples": [cases[i] for i in sorted({0, len(cases) // 2, len(cases) - 1})] if cases else [],
            "rule": "random histories over the op kernel of coq/theories/Genes/Model.v (about 15 % odd arguments: unknown "
                    "identifiers, renaming to an existing identifier, two keys to one target, chains and swaps, identity "
                    "renames, empty rules, reactions that are already / not in the model), drawn while executing on the real "
                    "Model; after EVERY step model.genes, every reaction's rule and _genes, every gene's back references, "
                    "_model pointers and identifier look-ups are compared with the Gallina model and ginv_b is evaluated "
                    "on the observation",
            "run_s": round(time.time() - t0, 1)}


def python_lines(case):
    """The history as Python statements (for the replay file)."""
    out = ["M = cobra.Model('genes'); R = [cobra.Reaction('R%d' % k) for k in range(" + str(case.get("nr", 4)) + ")]"]
    for o in case["ops"]:
        n, a = o[0], o[1:]
        if n == "SetRule":
            out.append("R[%d].gene_reaction_rule = %r" % (a[0], tree_str(a[1])))
        elif n == "AddRxn":
            out.append("M.add_reactions([R[%d]])" % a[0])
        elif n == "RemoveRxn":
            out.append("M.remove_reactions([R[%d]], remove_orphans=%s)" % (a[0], bool(a[1])))
        elif n == "RemoveGenes":
            out.append("remove_genes(M, %r, remove_reactions=%s)" % (["g%d" % k for k in a[0]], bool(a[1])))
        elif n == "RenameGenes":
            out.append("rename_genes(M, %r)" % {"g%d" % k: "g%d" % v for k, v in a[0]})
        elif n == "Repair":
            out.append("M.repair()")
        elif n == "Enter":
            out.append("M.__enter__()")
        elif n == "Exit":
            out.append("M.__exit__(None, None, None)")
    return out


# ================================================================== contexts (C03): run_ctx
CASE_TYPE_CTX = "obs * list (cop * obs)"
CODES_CTX = {4: "genes kernel: the model is not what it was when the block was entered (C03)",
             5: "genes kernel: __exit__ raised (C03)"}
# Reversible by documentation / by the quantifier of C03: gene rules, adding and removing reactions (with orphans),
# remove_genes, rename_genes.  Model.repair() is not documented as reversible: never inside a block.
# Scope rule (as in harness/core.py): inside a block a rule is only set on a reaction that is in the model at that
# moment -- a reaction outside the model cannot see the model's context, its edits are not recorded by design.


class InvalidCase(Exception):
    pass


def ctx_scope_ok(im, depth, o):
    if o[0] == "RenameGenes" and value_is_other_key(o) and VARIANT["rename"] != "repaired":
        return False        # known finding C02-rename-genes-chain leaves an inconsistent model behind (C02's business)
    if depth == 0:
        return o[0] != "Exit"
    if o[0] == "Repair":
        return False
    if o[0] == "SetRule" and im.rx[o[1]]._model is not im.model:
        return False
    return True


def run_case_ctx(case):
    im = Impl(case.get("nr", 4))
    obs0 = im.observe()
    steps, depth = [], 0
    for o in case["ops"]:
        if not ctx_scope_ok(im, depth, o):
            raise InvalidCase(str(o))
        res = im.apply(o)
        depth += 1 if o[0] == "Enter" else (-1 if o[0] == "Exit" else 0)
        steps.append(im.observe(res))
    if depth != 0:
        raise InvalidCase("open block")
    return obs0, steps


def gen_ctx_history(rng, length, nr=4, odd_p=0.1):
    im = Impl(nr)
    M = im.model
    ops = []
    allg = list(range(NG))
    depth, blocks = 0, 0

    def in_model():
        return [k for k, r in enumerate(im.rx) if r._model is M]

    def mg():
        return [gnum(g.id) for g in M.genes if gnum(g.id) is not None]

    def do(o):
        im.apply(o)
        ops.append(o)

    for r in rng.sample(range(nr), min(nr, rng.choice([1, 2, 2, 3]))):
        do(["SetRule", r, rand_tree(rng, allg[:rng.choice([3, 4, 7])]), "str"])
        do(["AddRxn", r])
    W = ["SetRule"] * 8 + ["AddRxn"] * 4 + ["RemoveRxn"] * 4 + ["RemoveGenes"] * 4 + ["RenameGenes"] * 4 + ["Repair"]
    guard = 0
    while len(ops) < length and guard < length * 20:
        guard += 1
        x = rng.random()
        if x < 0.2 and depth < 2 and blocks < 3:
            do(["Enter"])
            depth += 1
            blocks += 1
            continue
        if x < 0.3 and depth > 0 and ops[-1][0] != "Enter":
            do(["Exit"])
            depth -= 1
            continue
        n = rng.choice(W)
        odd = rng.random() < odd_p
        o = None
        if n == "SetRule":
            c = in_model() if (depth or rng.random() < 0.6) else list(range(nr))
            if c:
                t = None if rng.random() < 0.1 else rand_tree(rng, mg() if (mg() and rng.random() < 0.5) else allg)
                o = ["SetRule", rng.choice(c), t, rng.choice(["str", "str", "gpr"])]
        elif n == "AddRxn":
            c = [k for k in range(nr) if k not in in_model()]
            if odd and in_model():
                o = ["AddRxn", rng.choice(in_model())]
            elif c:
                o = ["AddRxn", rng.choice(c)]
        elif n == "RemoveRxn":
            c = in_model()
            if c:
                o = ["RemoveRxn", rng.choice(c), rng.random() < 0.6, rng.choice(["obj", "id", "method"])]
        elif n == "RemoveGenes":
            if mg():
                l = [rng.choice(mg()) for _ in range(rng.choice([1, 1, 2]))]
                if odd:
                    l[0] = rng.choice(allg)               # possibly unknown: raises inside the block
                o = ["RemoveGenes", l, rng.random() < 0.5, rng.choice(["id", "obj", "fresh"])]
        elif n == "RenameGenes":
            if mg():
                d = []
                for _ in range(rng.choice([1, 1, 2, 3])):
                    k = rng.choice(mg()) if not odd else rng.choice(allg)
                    if all(k != kk for kk, _ in d):
                        d.append([k, rng.choice(allg) if rng.random() < 0.7 else (d[-1][1] if d else k)])
                o = ["RenameGenes", d]
        elif n == "Repair":
            o = ["Repair"]
        if o is None or not ctx_scope_ok(im, depth, o):
            continue
        do(o)
    while depth > 0:
        do(["Exit"])
        depth -= 1
    return {"nr": nr, "ops": ops}


def evaluate_ctx(cases):
    terms, impl, idx = [], [], []
    for i, c in enumerate(cases):
        try:
            obs0, steps = run_case_ctx(c)
        except InvalidCase:
            impl.append(None)
            continue
        terms.append("(%s, [%s])" % (obs_term(obs0), "; ".join("(%s, %s)" % (cop_term(o), obs_term(s))
                                                               for o, s in zip(c["ops"], steps))))
        impl.append((obs0, steps))
        idx.append(i)
    res, faults = K.coq_eval_cases(HEADER, terms, CASE_TYPE_CTX, "failing_ctx", shard=25, timeout=900)
    return {idx[i]: lst for i, lst in res}, faults, impl


def simpler_ctx(case):
    ops = case["ops"]
    n = len(ops)
    out = []
    for i in range(n - 1):
        if ops[i][0] not in ("Enter", "Exit"):
            out.append(ops[:i] + ops[i + 1:])
    for i, o in enumerate(ops):
        if o[0] == "Enter":                      # drop a block's brackets together
            d = 0
            for j in range(i, n):
                d += 1 if ops[j][0] == "Enter" else (-1 if ops[j][0] == "Exit" else 0)
                if d == 0:
                    out.append([x for t, x in enumerate(ops) if t not in (i, j)])
                    break
        if o[0] in ("RemoveGenes", "RenameGenes") and len(o[1]) > 1:
            for j in range(len(o[1])):
                out.append(ops[:i] + [[o[0], o[1][:j] + o[1][j + 1:]] + o[2:]] + ops[i + 1:])
        if o[0] == "SetRule" and o[2] is not None and o[2][0] != "g":
            for ch in o[2][1]:
                out.append(ops[:i] + [["SetRule", o[1], ch] + o[3:]] + ops[i + 1:])
    return [{"nr": case.get("nr", 4), "ops": x} for x in out]


def cut_after(case, step):
    """The history up to `step` (1-based), open blocks closed."""
    ops = case["ops"][:max(step, 1)]
    d = sum(1 if o[0] == "Enter" else (-1 if o[0] == "Exit" else 0) for o in ops)
    return {"nr": case.get("nr", 4), "ops": ops + [["Exit"]] * max(d, 0)}


def shrink_ctx(case, want, rounds=30):
    cur = case
    r, f, _ = evaluate_ctx([cur])
    if f or 0 not in r:
        return cur
    cur = cut_after(cur, min(s for s, code in r[0] if code in want))
    for _ in range(rounds):
        cands = simpler_ctx(cur)
        if not cands:
            break
        try:
            r, f, _ = evaluate_ctx(cands)
        except Exception:
            break
        if f:
            break
        got = None
        for i in sorted(r):
            if any(code in want for _, code in r[i]):
                got = cut_after(cands[i], min(s for s, code in r[i] if code in want))
                break
        if got is None or got == cur:
            break
        cur = got
    return cur


def adds_formerly_in_model(case, step):
    """Inside the block closed at `step` an AddRxn puts back a reaction that had been in the model before
    (so that its gene set consists of the model's own gene objects)."""
    ops = case["ops"]
    d, start = 0, None
    for j in range(step - 1, -1, -1):
        d += 1 if ops[j][0] == "Exit" else (-1 if ops[j][0] == "Enter" else 0)
        if d == 0:
            start = j
            break
    if start is None:
        return False
    was_in, now_in = set(), set()
    for j, o in enumerate(ops[:step]):
        if o[0] == "AddRxn":
            if j > start and o[1] in was_in and o[1] not in now_in:
                return True
            was_in.add(o[1])
            now_in.add(o[1])
        elif o[0] == "RemoveRxn":
            now_in.discard(o[1])
        elif o[0] == "RemoveGenes" and o[2]:
            now_in = set()          # which reactions leave depends on the rules: be conservative (they may come back)
            # (a reaction that did not leave and is "added again" is ignored by add_reactions)
    return False


def run_ctx(rep, args, rng):
    """Called by core.main for C03: gene operations inside 1-2 nested `with model:` blocks; codes 4 and 5."""
    t0 = time.time()
    probe_variant()
    if args.replay:
        data = json.load(open(args.replay))
        if data.get("kernel") != "genes":
            return {"skipped": "replay of a case of the core kernel"}
        cases = [data["case"]]
        n_corpus = 0
    else:
        n, L = (250, 16) if args.tier == "quick" else (5000, 30)
        cases = []
        cdir = os.path.join(K.VERIF, "corpus", "C03", "genes")
        if os.path.isdir(cdir):
            for f in sorted(os.listdir(cdir)):
                if f.endswith(".json"):
                    cases.append(json.load(open(os.path.join(cdir, f)))["case"])
        n_corpus = len(cases)
        for _ in range(n):
            cases.append(gen_ctx_history(rng, rng.randrange(8, L + 3), nr=rng.choice([3, 4, 4, 5])))
    res, faults, impl = evaluate_ctx(cases)
    if faults:
        print("HARNESS FAULT (genes kernel, contexts): model evaluation failed:\n" + "\n".join(faults[:3]))
        rep.violation({"broken": True, "kernel": "genes"},
                      {"kernel": "genes", "broken_obligations": ["model evaluation (coqc on generated cases) failed: " +
                                                                 faults[0][-800:]],
                       "note": "the correspondence machinery of the genes kernel no longer runs; no failing input found"},
                      no_input=True)
    op_hist, in_block, n_steps, n_blocks, nested = {}, {}, 0, 0, 0
    for c, ob in zip(cases, impl):
        if ob is None:
            continue
        d = 0
        for o in c["ops"]:
            n_steps += 1
            op_hist[o[0]] = op_hist.get(o[0], 0) + 1
            if o[0] == "Enter":
                d += 1
                nested += d >= 2
            elif o[0] == "Exit":
                d -= 1
                n_blocks += 1
            elif d > 0:
                in_block[o[0]] = in_block.get(o[0], 0) + 1
    own = {4, 5}
    seen, reported, n_fail = set(), [], 0
    for idx in sorted(res):
        mine = [(s, c) for s, c in res[idx] if c in own]
        if not mine:
            continue
        n_fail += 1
        first = min(s for s, _ in mine)
        codes = tuple(sorted({c for s, c in mine if s == first}))
        key = (codes, adds_formerly_in_model(cases[idx], first))
        if key in seen or len(seen) >= 8:
            continue
        seen.add(key)
        small = cases[idx] if args.replay else shrink_ctx(cases[idx], set(codes))
        r2, _, impl2 = evaluate_ctx([small])
        lst2 = [(s, c) for s, c in (r2.get(0) or res[idx]) if c in own] or mine
        first2 = min(s for s, _ in lst2)
        codes2 = sorted({c for s, c in lst2 if s == first2})
        inside = []
        d = 0
        for o in reversed(small["ops"][:first2 - 1]):
            d += 1 if o[0] == "Exit" else (-1 if o[0] == "Enter" else 0)
            if d < 0:
                break
            inside.append(o[0])
        sig = {"kernel": "genes", "code": codes2[0], "codes_at_step": codes2, "op": "Exit",
               "ops_in_block": sorted(set(inside) - {"Enter", "Exit"}),
               "adds_formerly_in_model": adds_formerly_in_model(small, first2)}
        replay = {"kernel": "genes", "case": small, "failed": CODES_CTX.get(sig["code"], str(sig["code"])),
                  "failing_steps": lst2,
                  "implementation_observation": {"initial": impl2[0][0], "after_each_op": impl2[0][1]} if impl2[0] else None,
                  "python": python_lines(small),
                  "how_to_read": "as for the C02 genes cases; Enter / Exit = model.__enter__() / model.__exit__(None, None, None); "
                                 "code 4 compares the observation after the Exit with the one at the matching Enter "
                                 "(coq/theories/Genes/Check.v `restored`), code 5 = the exit raised",
                  "theorem": "coq/theories/Properties/C03.v (C03_genes_*)"}
        reported.append({"signature": sig, "status": rep.violation(sig, replay)})
    return {"histories": len(cases), "histories_outside_scope": sum(1 for x in impl if x is None), "steps_observed": n_steps,
            "blocks_closed": n_blocks, "nested_blocks_entered": nested, "corpus_cases": n_corpus,
            "rename_genes_variant_under_test": VARIANT["rename"],
            "op_distribution": op_hist, "ops_inside_blocks": in_block, "histories_failing": n_fail, "reported": reported,
            "samples": [cases[i] for i in sorted({0, len(cases) // 2, len(cases) - 1})] if cases else [],
            "rule": "random histories of gene operations (rules, add/remove reactions with and without orphans, remove_genes "
                    "incl. unknown identifiers that raise, rename_genes) with up to three blocks nested at most two deep, "
                    "drawn while executing on the real Model; the observation at every __enter__ is compared with the one "
                    "after the matching __exit__ (Coq `restored`); inside a block rules are only set on reactions that are "
                    "in the model, repair() is not called, dictionaries with a value that is another key are not used",
            "run_s": round(time.time() - t0, 1)}


if __name__ == "__main__":
    # stand-alone run of the genes kernel only (no proof gate): harness/genes.py [--tier ..] [--seed ..]
    import random
    a = K.parse_args()
    ok, out = K.build(EXTRA_TARGETS)
    if not ok:
        print(out[-2000:])
        sys.exit(2)

    class _Rep:
        violations = 0

        def violation(self, sig, replay, no_input=False):
            self.violations += 1
            print("VIOLATION(genes, stand-alone)", json.dumps(sig), json.dumps(replay.get("case")), replay.get("failing_steps"))
            return "new"
    rp = _Rep()
    cov = (run_ctx if os.environ.get("GENES_CTX") else run)(rp, a, random.Random(a.seed))
    cov.pop("samples", None)
    print(json.dumps(cov, indent=1))
    sys.exit(1 if rp.violations else 0)
