"""Shared generator of small stoichiometric networks (DESIGN §4 "Shared generators") and their
translations: to a real cobra Model, to the exact LP of lpexact.py, and to Coq terms.

A network is a JSON-able dict
  {"mets": [id...], "rxns": [{"id", "st": {met: "p/q"}, "lb": "p/q"|"-inf"|"inf", "ub": ..., "obj": "p/q",
                              "gpr": "text"}...], "dir": "max"|"min", "genes": [id...]}
All numbers are dyadic rationals, so they are exact in IEEE doubles.
"""
from fractions import Fraction as F

COEFS = [F(1), F(1), F(1), F(1), F(2), F(1, 2)]
FIN_BOUNDS = [F(0), F(1), F(5), F(10), F(1000)]


def num(s):
    if s in ("inf", "-inf"):
        return None
    return F(s)


def show(v, neg=False):
    if v is None:
        return "-inf" if neg else "inf"
    return str(F(v))


def fl(s):
    if s == "inf":
        return float("inf")
    if s == "-inf":
        return float("-inf")
    return float(F(s))


def _bounds(rng, reversible, finite_only, forced_p=0.08, inf_p=0.15):
    """(lb, ub) strings."""
    def up():
        if not finite_only and rng.random() < inf_p:
            return None
        return rng.choice([F(1), F(5), F(10), F(1000), F(1000), F(4000)])     # (fluxes may differ by more than 1000)
    r = rng.random()
    if r < forced_p:                       # forced flux
        lo = rng.choice([F(1, 2), F(1), F(2)])
        hi = lo if rng.random() < 0.3 else lo + rng.choice([F(1), F(5), F(1000)])
        return show(lo), show(hi)
    if r < forced_p + 0.06:                # fixed at zero / negative-only / one side infinite
        pool = [("0", "0"), ("-5", "-1"), ("-10", "0"), ("-1000", "-1/2")]
        if not finite_only:
            pool += [("-inf", "-1"), ("-inf", "0"), ("-inf", "-5"), ("1/2", "inf"), ("0", "inf"), ("-inf", "inf")]
        return rng.choice(pool)
    u = up()
    if reversible:
        lo = up()
        return show(None if lo is None else -lo, neg=True), show(u)
    return "0", show(u)


def gen_network(rng, size=None, finite_only=False, genes=True, max_mets=6, max_rxns=9, forced_p=0.08, inf_p=0.15):
    nm = size or rng.randrange(2, max_mets + 1)
    n_ext = rng.randrange(1, min(3, nm) + 1)
    mets = ["M%d_%s" % (i, "e" if i < n_ext else "c") for i in range(nm)]
    rxns = []

    def add(st, reversible=None, kind="R", bounds=None):
        if reversible is None:
            reversible = rng.random() < 0.4
        lb, ub = bounds or _bounds(rng, reversible, finite_only, forced_p, inf_p)
        rxns.append({"id": "%s%d" % (kind, len(rxns)), "st": {m: str(c) for m, c in st.items() if c != 0},
                     "lb": lb, "ub": ub, "obj": "0", "gpr": ""})

    # exchanges, either notation
    for i in range(n_ext):
        if rng.random() < 0.92:
            if rng.random() < 0.7:      # export notation  M -->   (uptake = negative flux)
                lo = rng.choice([F(0), F(1), F(5), F(10), F(1000)]) if (finite_only or rng.random() < 1 - inf_p / 1.5) else None
                hi = rng.choice([F(0), F(10), F(1000), F(1000)]) if (finite_only or rng.random() < 1 - inf_p) else None
                add({mets[i]: F(-1)}, kind="EX_", bounds=(show(None if lo is None else -lo, neg=True), show(hi)))
            else:                       # import notation  --> M   (uptake = positive flux)
                hi = rng.choice([F(0), F(1), F(5), F(10), F(1000)]) if (finite_only or rng.random() < 1 - inf_p / 1.5) else None
                lo = rng.choice([F(0), F(10), F(1000), F(1000)]) if (finite_only or rng.random() < 1 - inf_p) else None
                add({mets[i]: F(1)}, kind="EX_", bounds=(show(None if lo is None else -lo, neg=True), show(hi)))
    budget = rng.randrange(2, max(3, max_rxns - len(rxns)) + 1)
    motifs = ["conv", "conv", "conv", "branch", "cycle2", "cycle3", "deadend", "sink"]
    while budget > 0 and len(rxns) < max_rxns:
        mt = rng.choice(motifs)
        if mt == "conv" and nm >= 2:
            a, b = rng.sample(mets, 2)
            add({a: -rng.choice(COEFS), b: rng.choice(COEFS)}); budget -= 1
        elif mt == "branch" and nm >= 3:
            a, b, c = rng.sample(mets, 3)
            add({a: -rng.choice(COEFS), b: rng.choice(COEFS), c: rng.choice(COEFS) * rng.choice([1, -1])}); budget -= 1
        elif mt == "cycle2" and nm >= 2 and len(rxns) + 2 <= max_rxns:
            a, b = rng.sample(mets, 2)
            add({a: F(-1), b: F(1)}); add({b: F(-1), a: F(1)}); budget -= 2
        elif mt == "cycle3" and nm >= 3 and len(rxns) + 3 <= max_rxns:
            a, b, c = rng.sample(mets, 3)
            add({a: F(-1), b: F(1)}); add({b: F(-1), c: F(1)}); add({c: F(-1), a: F(1)}, reversible=rng.random() < 0.5)
            budget -= 3
        elif mt == "deadend":
            a = rng.choice(mets)
            add({a: rng.choice([F(1), F(-1)])}, kind="DM_"); budget -= 1
        elif mt == "sink":
            a = rng.choice(mets[n_ext:] or mets)
            add({a: F(-1)}, reversible=False, kind="SK_"); budget -= 1
        else:
            budget -= 1
    while len(rxns) < 2:                  # never an empty network
        add({rng.choice(mets): rng.choice([F(1), F(-1)])}, kind="DM_")
    # some networks have part of their reactions written the other way round (same fluxes up to sign): this is
    # what makes reverse-only reactions (lb < 0, ub <= 0) that actually carry flux
    if rng.random() < 0.3:
        for r in rxns:
            if rng.random() < 0.4:
                r["st"] = {m: str(-F(c)) for m, c in r["st"].items()}
                lo, hi = num(r["lb"]), num(r["ub"])
                r["lb"], r["ub"] = show(None if hi is None else -hi, neg=True), show(None if lo is None else -lo)
    # objective
    k = 1 if rng.random() < 0.75 else 2
    for r in rng.sample(rxns, min(k, len(rxns))):
        r["obj"] = str(rng.choice([F(1), F(1), F(1), F(-1), F(2)]))
    net = {"mets": mets, "rxns": rxns, "dir": "max" if rng.random() < 0.8 else "min", "genes": []}
    if genes:
        ng = rng.randrange(0, 6)
        gs = ["g%d" % i for i in range(ng)]
        net["genes"] = gs
        for r in rxns:
            if gs and rng.random() < 0.7:
                r["gpr"] = gen_rule(rng, gs, depth=rng.randrange(0, 3))
    return net


def gen_rule(rng, genes, depth):
    if depth == 0 or rng.random() < 0.3:
        return rng.choice(genes)
    op = rng.choice([" and ", " or "])
    n = rng.randrange(2, 4)
    return "(" + op.join(gen_rule(rng, genes, depth - 1) for _ in range(n)) + ")"


# ------------------------------------------------------------------ translations
def to_cobra(net, solver="glpk", name="net"):
    """The network as a cobra.Model.  The SAME content is reached along one of several equivalent construction
    histories (chosen from the network's own hash, so a case replays exactly): all at once, or through later edits
    of reactions that are already in the model (scaling by -1, identifier keys, bound setters, one coefficient at a
    time, objective coefficients one by one, a rolled-back block).  A defect of the editing operations or of the
    solver synchronisation then shows up in every LP-based check as a wrong optimum / range."""
    import hashlib
    import json
    import random
    import cobra
    from cobra import Metabolite, Model, Reaction
    style = net.get("style")
    if style is None:
        h = int(hashlib.sha1(json.dumps(net, sort_keys=True, default=str).encode()).hexdigest()[:8], 16)
        style = h % 10          # 0-4: direct; 5-9: through edits
    rng = random.Random(style * 7919 + len(net["rxns"]))
    m = Model(name)
    m.solver = solver
    mets = {i: Metabolite(i, compartment=i.rsplit("_", 1)[-1]) for i in net["mets"]}
    m.add_metabolites(list(mets.values()))
    rs = []
    later = []          # edits applied once the reaction is in the model
    for r in net["rxns"]:
        rx = Reaction(r["id"])
        lb, ub = fl(r["lb"]), fl(r["ub"])
        st = {k: float(F(v)) for k, v in r["st"].items()}
        how = rng.choice(["direct", "scaled", "idkeys", "setters", "replace"]) if style >= 5 else "direct"
        if how == "scaled":             # written the other way round, turned by  rx *= -1  inside the model
            rx.bounds = (-ub, -lb)
            rx.add_metabolites({mets[k]: -v for k, v in st.items()})
            later.append(("imul", rx, None))
        elif how == "idkeys":           # stoichiometry added by metabolite identifiers once it is in the model
            rx.bounds = (lb, ub)
            later.append(("idkeys", rx, st))
        elif how == "setters":          # default bounds first, then the single-bound setters in a valid order
            rx.add_metabolites({mets[k]: v for k, v in st.items()})
            later.append(("setters", rx, (lb, ub)))
        elif how == "replace":          # wrong coefficients first, replaced (combine=False) inside the model
            rx.bounds = (lb, ub)
            rx.add_metabolites({mets[k]: v * 2 + 1 for k, v in st.items()})
            later.append(("replace", rx, st))
        else:
            rx.bounds = (lb, ub)
            rx.add_metabolites({mets[k]: v for k, v in st.items()})
        if r.get("gpr"):
            if style in (5, 9):         # the rule arrives as a GPR object once the reaction is in the model
                later.append(("gprobj", rx, r["gpr"]))
            else:
                rx.gene_reaction_rule = r["gpr"]
        rs.append(rx)
    m.add_reactions(rs)
    for what, rx, arg in later:
        if what == "imul":
            rx *= -1
        elif what == "idkeys":
            rx.add_metabolites(dict(arg))
        elif what == "setters":
            lb, ub = arg
            if lb <= rx.upper_bound:
                rx.lower_bound = lb
                rx.upper_bound = ub
            else:
                rx.upper_bound = ub
                rx.lower_bound = lb
        elif what == "replace":
            rx.add_metabolites({mets[k]: v for k, v in arg.items()}, combine=False)
        elif what == "gprobj":
            from cobra.core.gene import GPR
            rx.gpr = GPR.from_string(arg)
    obj = {m.reactions.get_by_id(r["id"]): float(F(r["obj"])) for r in net["rxns"] if F(r["obj"]) != 0}
    if style in (1, 3, 6, 8):
        m.objective_direction = net["dir"]        # the direction is chosen BEFORE the objective is assigned
    if style >= 5 and style % 2 == 1:
        for rx, c in obj.items():       # one coefficient at a time
            rx.objective_coefficient = c
    else:
        m.objective = obj
    if style not in (1, 3, 6, 8):
        m.objective_direction = net["dir"]
    if style in (2, 7) and rs:
        # an objective term that was added through the additive form and taken back the same way (it cancels)
        from cobra.util.solver import set_objective
        zero = [r for r in rs if r.objective_coefficient == 0] or rs
        set_objective(m, 1.0 * zero[0].flux_expression, additive=True)
        set_objective(m, -1.0 * zero[0].flux_expression, additive=True)
    if style in (6, 7, 9) and net["mets"]:
        # a temporary reaction that was part of the objective (negative weight) and is removed again, outside any block
        tmp = Reaction("ZZ_tmp")
        tmp.bounds = (-5, 5)
        tmp.add_metabolites({mets[net["mets"][0]]: -1.0})
        m.add_reactions([tmp])
        tmp.objective_coefficient = -2.0
        if len(m.genes):
            tmp.gene_reaction_rule = m.genes[0].id      # shares a gene with the model's reactions
        m.remove_reactions([tmp])
        tmp.copy()                                      # copying the removed reaction must not touch the model's genes
    if style >= 8 and len(rs) >= 2:     # a block that removes reactions (and edits one in place) is rolled back
        order = [r.id for r in m.reactions]
        with m:
            victims = rng.sample(rs, 2)
            victims[0].bounds = (0, 0)
            m.remove_reactions(victims)
            m.objective_direction = "min" if net["dir"] == "max" else "max"
            if style == 9 and len(m.genes) >= 1:
                from cobra.manipulation.modify import rename_genes
                rename_genes(m, {m.genes[0].id: "zz_renamed_gene"})
        # the rollback re-appends the reactions at the end of model.reactions: put the documented order back
        if [r.id for r in m.reactions] != order:
            m.reactions.sort(key=lambda r: order.index(r.id))     # (DictList.sort rebuilds its own index)
    return m


def net_lp(net, obj=None):
    """Exact LP over the NET fluxes: variables = reactions in order, rows = metabolites (S v = 0).
    Objective: the model's, as a maximisation (negated for dir == 'min') unless `obj` is given."""
    idx = {m: i for i, m in enumerate(net["mets"])}
    rows = [[F(0)] * len(net["rxns"]) for _ in net["mets"]]
    for j, r in enumerate(net["rxns"]):
        for k, v in r["st"].items():
            rows[idx[k]][j] = F(v)
    sgn = 1 if net["dir"] == "max" else -1
    c = [sgn * F(r["obj"]) for r in net["rxns"]] if obj is None else list(obj)
    return {"vb": [(num(r["lb"]), num(r["ub"])) for r in net["rxns"]],
            "rows": [(row, F(0), F(0)) for row in rows], "obj": c}


# ------------------------------------------------------------------ Coq printing
def q(v):
    v = F(v)
    return "(%d # %d)" % (v.numerator, v.denominator)


def eb(v, neg):
    if v is None:
        return "NegInf" if neg else "PosInf"
    return "(Fin %s)" % q(v)


def vec(xs):
    return "[" + "; ".join(q(x) for x in xs) + "]"


def coq_lp(lp):
    vb = "[" + "; ".join("(%s, %s)" % (eb(lo, True), eb(hi, False)) for lo, hi in lp["vb"]) + "]"
    rows = "[" + "; ".join("mkRow %s %s %s" % (vec(c), eb(lo, True), eb(hi, False)) for c, lo, hi in lp["rows"]) + "]"
    return "(mkLP %s %s %s)" % (vb, rows, vec(lp["obj"]))


def coq_net(net):
    """(fbamodel term of coq/theories/LP/Fba.v)"""
    idx = {m: i for i, m in enumerate(net["mets"])}
    rx = []
    for r in net["rxns"]:
        col = [F(0)] * len(net["mets"])
        for k, v in r["st"].items():
            col[idx[k]] = F(v)
        rx.append("mkRxn %s %s %s %s" % (vec(col), eb(num(r["lb"]), True), eb(num(r["ub"]), False), q(F(r["obj"]))))
    return "(mkFba %d%%nat [%s] %s)" % (len(net["mets"]), "; ".join(rx), "true" if net["dir"] == "max" else "false")
