"""C09 — pFBA, linear MOMA and ROOM solve their documented secondary problems optimally.

Implementation side: the real pfba / moma / room from REPO/src on generated networks; the LP that add_pfba /
add_moma / add_room leave in GLPK is read back column by column (harness/obsmodel.observe_raw), the solver state
after every slim_optimize / optimize is recorded, and the returned Solution is kept.
Model side (coq/theories/Secondary): the modelled LP must equal the LP read back (code 1), the exact oracle's
certificates for the modelled LP are re-checked by the proved checkers of LP/Cert.v (code 9 when rejected), and the
property monitor (optimal value = certified optimum of the specification, feasibility, fraction constraint, ...)
is evaluated on the implementation's own output (codes >= 2)."""
import math
import os
import sys
import warnings
from fractions import Fraction as F

sys.path.insert(0, os.path.dirname(os.path.abspath(__file__)))
import common as K  # noqa: E402
import gennet  # noqa: E402
import lpexact  # noqa: E402
import lpcheck  # noqa: E402
import obsmodel  # noqa: E402

sys.path.insert(0, os.path.join(K.REPO, "src"))

PROP = "C09"
EXTRA_TARGETS = ["theories/Secondary/Check.vo"]
HEADER = """From Coq Require Import QArith List Bool ZArith.
From Cobra.LP Require Import Defs Fba Milp.
From Cobra.Optimize Require Import Model.
From Cobra.Secondary Require Import Check.
Import ListNotations.
Open Scope Q_scope."""
CASE_TYPE = "c09case"
CODES = {1: "the LP left in the solver by add_pfba/add_moma/add_room, or the bookkeeping around the solves, differs "
            "from the Gallina model",
         2: "status / exception contradicts the exact verdict of the specification problem",
         3: "reported objective value is not the certified optimum of the specification problem",
         4: "returned fluxes violate steady state or a flux bound beyond tolerance",
         5: "returned fluxes violate the fraction-of-optimum constraint beyond tolerance",
         6: "reported objective value differs from the specification's objective at the returned fluxes",
         7: "fluxes returned for `reactions=` are not the requested entries of the solution",
         9: "exact oracle certificate rejected (harness fault)"}
THEOREMS = ("C09_min_split_is_abs, C09_pfba_lp_equiv, C09_pfba_sound, C09_abs_encoding, C09_moma_lp_equiv, "
            "C09_check_milp_sound, C09_room_switch, C09_room_milp_equiv, C09_room_linear_equiv "
            "(coq/theories/Properties/C09.v)")
RULE = ("random stoichiometric networks (harness/gennet.py, 2-6 metabolites, 3-9 reactions, dyadic data) x knock-out "
        "state x fraction_of_optimum in {1, 3/4, 1/2, 0} x objective override x reactions subset x solver interface; "
        "non-trivial = the un-knocked-out network has an FBA optimum and the analysis was executed on both sides; "
        "distinct = distinct JSON case")
TRUSTED = ["GLPK / optlang are validated per instance against the certificate-checked exact optimum, not proved",
           "harness/lpexact.py only searches for certificates; coq/theories/LP/Cert.v decides them",
           "harness/obsmodel.observe_raw (swiglpk read-back of the LP) is trusted to report the LP GLPK holds",
           "floating point: values compared within 1e-6*max(1,|x|) (DESIGN 2.3)"]
ASSUMPTIONS = ["GLPK's simplex / MIP are not verified: their answers are validated on every explored instance",
               "quadratic MOMA is out of scope (no QP solver installed; cobrapy refuses it)",
               "IEEE rounding inside GLPK is bounded by the stated tolerance, not modelled"]
SHARD = 40

STATUS = {"optimal": "Optimal", "infeasible": "Infeasible", "unbounded": "Unbounded", "undefined": "Undefined",
          "feasible": "FeasibleSt"}
EXN = {"Infeasible": "ExInfeasible", "Unbounded": "ExUnbounded", "FeasibleButNotOptimal": "ExFeasibleButNotOptimal",
       "UndefinedSolution": "ExUndefinedSolution", "OptimizationError": "ExOptimizationError"}
FRACS = ["1", "3/4", "1/2", "0"]
DUMMY_SR = "(mkSR Undefined 0 [] [] [])"
BAD_LP = "(mkLP [] [] [1])"


# ------------------------------------------------------------------ small helpers
def qf(x):
    if x is None or (isinstance(x, float) and (math.isnan(x) or math.isinf(x))):
        return None
    return F(float(x))


def qs(x):
    v = qf(x)
    return gennet.q(v if v is not None else F(0))


def vec(xs):
    return "[" + "; ".join(gennet.q(x) for x in xs) + "]"


def fvec(xs):
    return "[" + "; ".join(qs(x) for x in xs) + "]"


def opt(s):
    return "None" if s is None else "(Some %s)" % s


def oracle_term(o):
    if o is None:
        return "ONone"
    if o[0] == "optimal":
        return "(OOpt %s %s)" % (vec(o[1]), vec(o[2]))
    if o[0] == "infeasible":
        return "(OInf %s)" % vec(o[1])
    if o[0] == "unbounded":
        return "(OUnb %s %s)" % (vec(o[1]), vec(o[2]))
    return "ONone"


def split_bounds(lb, ub):
    """Reaction.update_variable_bounds (replica of LP/Fba.v split_bounds; untrusted: only used to search
    for certificates, which the Coq checker re-checks against the Gallina LP)."""
    if lb is not None and lb > 0:
        return (lb, ub), (F(0), F(0))
    if ub is not None and ub < 0:
        return (F(0), F(0)), (-ub, None if lb is None else -lb)
    return (F(0), ub), (F(0), None if lb is None else -lb)


def dup(a):
    out = []
    for x in a:
        out += [x, -x]
    return out


def split_lp(net):
    base = gennet.net_lp(net)
    vb = []
    for lo, hi in base["vb"]:
        fb, rb = split_bounds(lo, hi)
        vb += [fb, rb]
    return {"vb": vb, "rows": [(dup(c), lo, hi) for c, lo, hi in base["rows"]], "obj": dup(base["obj"])}


def raw_obj(net):
    return [F(r["obj"]) for r in net["rxns"]]


def with_objective(net, objective):
    """the network after `model.objective = {reaction: coefficient}`"""
    if objective is None:
        return net
    n2 = dict(net)
    n2["rxns"] = [dict(r, obj=str(F(objective.get(r["id"], "0")))) for r in net["rxns"]]
    return n2


def knocked(net, ko):
    n2 = dict(net)
    n2["rxns"] = [dict(r, lb="0", ub="0") if r["id"] in ko else r for r in net["rxns"]]
    return n2


def normalise(case):
    """drop references to reactions the shrinker removed"""
    ids = [r["id"] for r in case["net"]["rxns"]]
    c = dict(case)
    if c.get("objective") is not None:
        c["objective"] = {k: v for k, v in c["objective"].items() if k in ids}
        if not c["objective"]:
            c["objective"] = None
    if c.get("reactions") is not None:
        c["reactions"] = [r for r in c["reactions"] if r in ids]
    if c.get("ko") is not None:
        c["ko"] = [r for r in c["ko"] if r in ids]
    return c


def read_lp(model, net, extra_cols=(), extra_rows=()):
    """The LP GLPK holds, in the column / row order of the Gallina model, as a maximisation.
    Returns (lp dict, kinds of the extra columns, bounds of extra rows by name) or None when the sets of
    column / row names are not the expected ones."""
    raw = obsmodel.observe_raw(model)
    cols = {c["name"]: c for c in raw["columns"]}
    rws = {r["name"]: r for r in raw["rows"]}
    names = []
    for r in net["rxns"]:
        rx = model.reactions.get_by_id(r["id"])
        names += [rx.id, rx.reverse_id]
    names += list(extra_cols)
    rnames = list(net["mets"]) + list(extra_rows)
    if set(names) != set(cols) or set(rnames) != set(rws) or len(names) != len(cols) or len(rnames) != len(rws):
        return None
    if raw["constant"] not in ("0/1",):
        return None
    idx = {n: i for i, n in enumerate(names)}

    def b(x):
        return None if x is None else F(x)
    sgn = 1 if raw["direction"] == "max" else -1
    lp = {"vb": [(b(cols[n]["bounds"][0]), b(cols[n]["bounds"][1])) for n in names], "rows": [],
          "obj": [sgn * F(cols[n]["obj"]) for n in names]}
    for rn in rnames:
        co = [F(0)] * len(names)
        for k, v in rws[rn]["coefficients"].items():
            co[idx[k]] = F(v)
        lp["rows"].append((co, b(rws[rn]["bounds"][0]), b(rws[rn]["bounds"][1])))
    return lp, [cols[n]["kind"] for n in names], {rn: rws[rn]["bounds"] for rn in extra_rows}


class Recorder:
    """records the solver state after every Model.slim_optimize / Model.optimize while installed"""

    def __init__(self, net, on_solve=None):
        self.net, self.log, self.on_solve, self.depth = net, [], on_solve, 0

    def before(self, model, kind):
        # the LP is read back at the moment the analysis hands it to the solver
        if self.on_solve is not None and self.depth == 0:
            self.on_solve(model, kind, len(self.log))

    def __enter__(self):
        import cobra
        self.cls = cobra.core.model.Model
        self.orig_slim, self.orig_opt = self.cls.slim_optimize, self.cls.optimize
        rec = self

        def slim(model, *a, **kw):
            rec.before(model, "slim")
            try:
                return rec.orig_slim(model, *a, **kw)
            finally:
                rec.snap(model)

        def optimize(model, *a, **kw):
            # Model.optimize calls slim_optimize itself; record once, after the outer call
            rec.before(model, "optimize")
            n = len(rec.log)
            rec.depth += 1
            try:
                return rec.orig_opt(model, *a, **kw)
            finally:
                rec.depth -= 1
                del rec.log[n:]
                rec.snap(model)
        self.cls.slim_optimize, self.cls.optimize = slim, optimize
        return self

    def __exit__(self, *a):
        self.cls.slim_optimize, self.cls.optimize = self.orig_slim, self.orig_opt

    def snap(self, model):
        st = model.solver.status
        ent = {"status": st}
        if st == "optimal":
            pv = model.solver.primal_values
            ent["obj"] = model.solver.objective.value
            ent["primal"] = []
            for r in self.net["rxns"]:
                rx = model.reactions.get_by_id(r["id"])
                ent["primal"].append((pv[rx.id], pv[rx.reverse_id]))
            ent["all"] = dict(pv)
        self.log.append(ent)

    def sr(self, k):
        if k >= len(self.log):
            return DUMMY_SR
        e = self.log[k]
        if e["status"] != "optimal":
            return "(mkSR %s 0 [] [] [])" % STATUS.get(e["status"], "OtherSt")
        return "(mkSR Optimal %s [%s] [] [])" % (
            qs(e["obj"]), "; ".join("(%s, %s)" % (qs(f), qs(r)) for f, r in e["primal"]))


def exn_term(e):
    n = type(e).__name__
    return "(PRaise %s)" % EXN[n] if n in EXN else "POther"


# ------------------------------------------------------------------ pFBA
def pfba_lp_py(net, bound):
    lp = split_lp(net)
    c = dup(raw_obj(net))
    row = (c, bound, None) if net["dir"] == "max" else (c, None, bound)
    return {"vb": lp["vb"], "rows": lp["rows"] + [row], "obj": [F(-1)] * len(lp["vb"])}


def pfba_case(case):
    import cobra
    from cobra.flux_analysis import parsimonious
    case = normalise(case)
    net = knocked(case["net"], case.get("ko") or [])
    frac = F(case["frac"])
    net2 = with_objective(net, case.get("objective"))
    ids = [r["id"] for r in net["rxns"]]
    # ---- exact side
    fba = lpexact.certified(gennet.net_lp(net2))
    spec, exact_opt = None, None
    if fba[0] == "optimal":
        exact_opt = sum((c * x for c, x in zip(raw_obj(net2), fba[1])), F(0))
        spec = lpexact.certified(pfba_lp_py(net2, exact_opt * frac))
    # ---- implementation side
    m = gennet.to_cobra(net, case["solver"])

    def objective_arg(model):
        o = case.get("objective")
        if o is None:
            return None
        if case.get("objective_style") == "id" and len(o) == 1 and F(list(o.values())[0]) == 1:
            return list(o)[0]
        return {model.reactions.get_by_id(k): float(F(v)) for k, v in o.items()}

    def reactions_arg(model):
        rs = case.get("reactions")
        if rs is None:
            return None
        return list(rs) if case.get("reactions_style") == "id" else [model.reactions.get_by_id(r) for r in rs]
    obs = {}
    seen = {"lp": "None"}

    def on_solve(model, kind, index):
        if kind != "slim" or index != 1:
            return
        fixed = [c.name for c in model.constraints if c.name.startswith("fixed_objective_")]
        got = read_lp(model, net, extra_rows=fixed) if len(fixed) == 1 else None
        if got is None:
            seen["lp"] = "(Some (0, %s))" % BAD_LP
        else:
            lo, hi = got[2][fixed[0]]
            bobs = lo if net["dir"] == "max" else hi
            seen["lp"] = "(Some (%s, %s))" % (gennet.q(F(bobs)) if bobs is not None else "0", gennet.coq_lp(got[0]))
            obs["bound_in_solver"] = float(F(bobs)) if bobs is not None else None
    with warnings.catch_warnings():
        warnings.simplefilter("ignore")
        full = {}
        orig_gs = parsimonious.get_solution

        def gs(model, reactions=None, metabolites=None, raise_error=False):
            full["sol"] = orig_gs(model)
            return orig_gs(model, reactions=reactions, metabolites=metabolites, raise_error=raise_error)
        parsimonious.get_solution = gs
        try:
            with Recorder(net, on_solve) as rec:
                try:
                    sol = parsimonious.pfba(m, fraction_of_optimum=float(frac), objective=objective_arg(m),
                                            reactions=reactions_arg(m))
                    exc = None
                except Exception as e:  # noqa
                    sol, exc = None, e
        finally:
            parsimonious.get_solution = orig_gs
    if exc is not None:
        out = exn_term(exc)
        obs["exception"] = type(exc).__name__
    else:
        sub_ids = ids if case.get("reactions") is None else case["reactions"]
        ok_index = list(sol.fluxes.index) == list(sub_ids) and "sol" in full and \
            list(full["sol"].fluxes.index) == ids
        if not ok_index:
            out = "POther"
        else:
            out = "(PSol %s %s %s %s)" % (STATUS.get(sol.status, "OtherSt"), qs(sol.objective_value),
                                          fvec(sol.fluxes.values), fvec(full["sol"].fluxes.values))
        obs.update(status=sol.status, objective_value=sol.objective_value,
                   fluxes={k: float(v) for k, v in sol.fluxes.items()})
    obs["solver_log"] = [(e["status"], e.get("obj")) for e in rec.log]
    sel = None if case.get("reactions") is None else \
        "[" + "; ".join("%d%%nat" % ids.index(r) for r in case["reactions"]) + "]"
    cvec = None if case.get("objective") is None else vec(raw_obj(net2))
    term = "(CPfba (mkPfba %s %s %s %s %s %s %s %s %s %s))" % (
        gennet.coq_net(net), opt(cvec), gennet.q(frac), opt(sel), oracle_term(fba), oracle_term(spec),
        seen["lp"], rec.sr(0), rec.sr(1), out)
    obs["exact"] = {"fba": fba[0], "optimum": str(exact_opt), "spec": None if spec is None else spec[0],
                    "min_total_flux": None if spec is None or spec[0] != "optimal" else
                    str(-sum((c * x for c, x in zip(pfba_lp_py(net2, exact_opt * frac)["obj"], spec[1])), F(0)))}
    return term, {"obs": obs, "nontrivial": fba[0] == "optimal",
                  "stats": {"kind": "pfba", "fba": fba[0], "spec": None if spec is None else spec[0],
                            "frac": case["frac"], "dir": net["dir"], "solver": case["solver"],
                            "objective": "given" if case.get("objective") else "model",
                            "reactions": "subset" if case.get("reactions") is not None else "all",
                            "n_ko": len(case.get("ko") or []), "n_rxns": len(ids)}}


def gen_pfba(rng, n):
    cases = []
    for k in range(n):
        net = gennet.gen_network(rng, finite_only=(k % 6 != 0), genes=False,
                                 forced_p=0.25 if k % 5 == 0 else 0.06, inf_p=0.5 if k % 12 == 0 else 0.15)
        ids = [r["id"] for r in net["rxns"]]
        c = {"kind": "pfba", "net": net, "frac": FRACS[k % 4] if k % 3 else rng.choice(FRACS),
             "solver": "glpk_exact" if k % 7 == 3 else "glpk", "objective": None, "reactions": None, "ko": []}
        if rng.random() < 0.3:
            chosen = rng.sample(ids, 1 if rng.random() < 0.6 else min(2, len(ids)))
            c["objective"] = {r: str(rng.choice([F(1), F(1), F(2), F(-1), F(1, 2)])) for r in chosen}
            c["objective_style"] = rng.choice(["dict", "id"])
        if rng.random() < 0.3:
            c["reactions"] = rng.sample(ids, rng.randrange(1, len(ids) + 1))
            c["reactions_style"] = rng.choice(["obj", "id"])
        if rng.random() < 0.35:
            c["ko"] = rng.sample(ids, 1 if rng.random() < 0.7 else min(2, len(ids)))
        cases.append(c)
    return cases


# ------------------------------------------------------------------ linear MOMA
def aux_lp_py(net, wb, avb, ups, los):
    """replica of Secondary/AuxLp.v aux_lp (untrusted; certificates are checked against the Gallina LP)"""
    n = len(net["rxns"])
    base = split_lp(net)
    rows = [(c + [F(0)] * (1 + n), lo, hi) for c, lo, hi in base["rows"]]
    rows.append((dup(raw_obj(net)) + [F(-1)] + [F(0)] * n, F(0), F(0)))
    for spec in (ups, los):
        for i, (k, lo, hi) in enumerate(spec):
            c = [F(0)] * (3 * n + 1)
            c[2 * i], c[2 * i + 1], c[2 * n + 1 + i] = F(1), F(-1), k
            rows.append((c, lo, hi))
    return {"vb": base["vb"] + [wb] + list(avb), "rows": rows, "obj": [F(0)] * (2 * n + 1) + [F(-1)] * n}


def moma_lp_py(net, ref):
    n = len(net["rxns"])
    return aux_lp_py(net, (None, None), [(F(0), None)] * n, [(F(-1), None, r) for r in ref],
                     [(F(1), r, None) for r in ref])


def reference(case, wt_model, rec_pfba=None):
    """the `solution=` argument: an optimal solution of the un-knocked-out model, or None"""
    from cobra.flux_analysis import pfba
    kind = case.get("ref", "fba")
    if kind == "default":
        return None
    if kind == "pfba":
        return pfba(wt_model)
    return wt_model.optimize()


def sobs_term(sol, ids):
    if sol is None:
        return "SOther"
    if list(sol.fluxes.index) != ids:
        return "SOther"
    if sol.status != "optimal":
        return "(SSol %s 0 [])" % STATUS.get(sol.status, "OtherSt")
    return "(SSol Optimal %s %s)" % (qs(sol.objective_value), fvec(sol.fluxes.values))


def moma_case(case):
    import importlib
    moma_mod = importlib.import_module("cobra.flux_analysis.moma")
    case = normalise(case)
    wt = case["net"]
    net = knocked(wt, case.get("ko") or [])
    ids = [r["id"] for r in net["rxns"]]
    obs = {}
    with warnings.catch_warnings():
        warnings.simplefilter("ignore")
        wt_model = gennet.to_cobra(wt, case["solver"])
        try:
            if len(wt["rxns"]) % 2 == 1:
                # the reference may come from a model object whose reactions are in another order (as after a
                # rolled-back removal): a reference flux belongs to the reaction of the same identifier
                wt_model.reactions.sort(key=lambda r: r.id, reverse=True)
            ref_sol = reference(case, wt_model)
        except Exception as e:  # noqa  (wild type infeasible: no reference exists, out of the quantifier)
            return None, {"skipped": True, "stats": {"kind": "moma", "skipped": "no reference: " + type(e).__name__}}
        if ref_sol is not None and ref_sol.status != "optimal":
            return None, {"skipped": True, "stats": {"kind": "moma", "skipped": "no reference: " + ref_sol.status}}
        m = gennet.to_cobra(net, case["solver"])
        used = {}
        orig_pfba = moma_mod.pfba

        def spy_pfba(model, *a, **kw):
            used["sol"] = orig_pfba(model, *a, **kw)
            return used["sol"]
        moma_mod.pfba = spy_pfba
        try:
            seen = {"lp": "None"}

            def on_solve(model, kind, index):
                if kind != "optimize":
                    return
                got = read_lp(model, net,
                              extra_cols=["moma_old_objective"] + ["moma_dist_" + i for i in ids],
                              extra_rows=["moma_old_objective_constraint"] + ["abs_pos_moma_dist_" + i for i in ids]
                              + ["abs_neg_moma_dist_" + i for i in ids])
                seen["lp"] = "(Some %s)" % (BAD_LP if got is None or any(k != "continuous" for k in got[1])
                                            else gennet.coq_lp(got[0]))
            with Recorder(net, on_solve) as rec:
                try:
                    sol = moma_mod.moma(m, solution=ref_sol, linear=True)
                    exc = None
                except Exception as e:  # noqa
                    sol, exc = None, e
        finally:
            moma_mod.pfba = orig_pfba
    if ref_sol is None:
        if "sol" not in used:
            # the default reference could not be computed: the model itself is infeasible -> pfba raised
            fba = lpexact.certified(gennet.net_lp(net))
            ok = exc is not None and ((fba[0] == "infeasible" and type(exc).__name__ == "Infeasible") or
                                      (fba[0] == "unbounded" and type(exc).__name__ == "Unbounded"))
            if ok:
                # no optimal reference exists (the property quantifies over references that are optimal for the model)
                return None, {"skipped": True, "stats": {"kind": "moma", "skipped": "default reference: model %s" % fba[0]}}
            ref = [F(0)] * len(ids)
        else:
            ref = [qf(used["sol"].fluxes[i]) for i in ids]
    else:
        ref = [qf(ref_sol.fluxes[i]) for i in ids]
    spec = lpexact.certified(moma_lp_py(net, ref))
    default = None
    if ref_sol is None:
        default = lpexact.certified(gennet.net_lp(net))
    last = rec.log[-1] if rec.log else None
    sr = rec.sr(len(rec.log) - 1) if rec.log else DUMMY_SR
    w = qs(last["all"].get("moma_old_objective")) if last and last["status"] == "optimal" else "0"
    out = exn_term(exc).replace("PRaise", "SRaise").replace("POther", "SOther") if exc is not None else sobs_term(sol, ids)
    if sol is not None:
        obs.update(status=sol.status, objective_value=sol.objective_value,
                   fluxes={k: float(v) for k, v in sol.fluxes.items()})
    if exc is not None:
        obs["exception"] = type(exc).__name__
    obs["reference"] = [float(x) for x in ref]
    obs["exact"] = {"spec": spec[0], "min_distance": None if spec[0] != "optimal" else
                    str(sum(spec[1][2 * len(ids) + 1:], F(0)))}
    term = "(CMoma (mkMoma %s %s %s %s %s %s %s %s))" % (
        gennet.coq_net(net), vec(ref), opt(None if default is None else oracle_term(default)), oracle_term(spec),
        seen["lp"], sr, w, out)
    return term, {"obs": obs, "nontrivial": spec[0] == "optimal",
                  "stats": {"kind": "moma", "spec": spec[0], "ref": case.get("ref", "fba"), "dir": net["dir"],
                            "solver": case["solver"], "n_ko": len(case.get("ko") or []), "n_rxns": len(ids)}}


def gen_moma(rng, n):
    cases = []
    for k in range(n):
        net = gennet.gen_network(rng, finite_only=(k % 5 != 0), genes=False, forced_p=0.2 if k % 6 == 0 else 0.05)
        ids = [r["id"] for r in net["rxns"]]
        c = {"kind": "moma", "net": net, "solver": "glpk_exact" if k % 7 == 3 else "glpk",
             "ref": ["fba", "pfba", "default", "fba"][k % 4], "ko": []}
        if rng.random() < 0.75:
            c["ko"] = rng.sample(ids, 1 if rng.random() < 0.7 else min(2, len(ids)))
        cases.append(c)
    return cases


# ------------------------------------------------------------------ ROOM
def band(f, delta, eps):
    return f - delta * abs(f) - eps, f + delta * abs(f) + eps


def room_lp_py(net, ref, delta, eps, linear):
    if linear:
        delta = eps = F(0)
    n = len(net["rxns"])
    ups, los = [], []
    for r, f in zip(net["rxns"], ref):
        wl, wu = band(f, delta, eps)
        ups.append((-(F(r["ub"]) - wu), None, wu))
        los.append((-(F(r["lb"]) - wl), wl, None))
    return aux_lp_py(net, (None, None), [(F(0), F(1))] * n, ups, los)


def room_env(net, ref, delta, eps):
    big = F(1)
    for r, f in zip(net["rxns"], ref):
        wl, wu = band(f, delta, eps)
        big = max(big, abs(F(r["ub"]) - wu), abs(F(r["lb"]) - wl))
    return F(1, 100000) * big


def room_milp_cert(net, ref, delta, eps):
    """exact optimum of the mixed problem by enumeration: (k, x, [bcert terms]) or None.
    Search on the small net-flux problem first, certificates on the Gallina-shaped problem."""
    import itertools
    n = len(net["rxns"])
    base = gennet.net_lp(net)
    bands = [band(f, delta, eps) for f in ref]

    def feasible_with(out):
        vb = []
        for i, (lo, hi) in enumerate(base["vb"]):
            if i not in out:
                lo, hi = max(lo, bands[i][0]), min(hi, bands[i][1])
                if lo > hi:
                    return False
            vb.append((lo, hi))
        return lpexact.certified({"vb": vb, "rows": base["rows"], "obj": [F(0)] * n})[0] == "optimal"
    best = None
    for k in range(n + 1):
        for out in itertools.combinations(range(n), k):
            if feasible_with(set(out)):
                best = (k, set(out))
                break
        if best:
            break
    if best is None:
        return None
    k, out = best
    lp = room_lp_py(net, ref, delta, eps, False)

    def fixed(bs):
        vb = list(lp["vb"])
        for i, b in enumerate(bs):
            vb[2 * n + 1 + i] = (F(b), F(b))
        return {"vb": vb, "rows": lp["rows"], "obj": lp["obj"]}
    certs = []
    for bs in itertools.product([0, 1], repeat=n):
        if sum(bs) >= k:
            certs.append("BUp []")
        else:
            r = lpexact.certified(fixed(bs))
            if r[0] != "infeasible":
                return None
            certs.append("BInf %s" % vec(r[1]))
    r = lpexact.certified(fixed([1 if i in out else 0 for i in range(n)]))
    if r[0] != "optimal":
        return None
    return k, r[1], "[" + "; ".join(certs) + "]"


def room_case(case):
    import importlib
    room_mod = importlib.import_module("cobra.flux_analysis.room")
    case = normalise(case)
    wt = case["net"]
    net = knocked(wt, case.get("ko") or [])
    ids = [r["id"] for r in net["rxns"]]
    n = len(ids)
    linear = bool(case.get("linear"))
    delta, eps = float(F(case["delta"])), float(F(case["epsilon"]))
    obs = {}
    with warnings.catch_warnings():
        warnings.simplefilter("ignore")
        wt_model = gennet.to_cobra(wt, case["solver"])
        try:
            if len(wt["rxns"]) % 2 == 1:
                # the reference may come from a model object whose reactions are in another order (as after a
                # rolled-back removal): a reference flux belongs to the reaction of the same identifier
                wt_model.reactions.sort(key=lambda r: r.id, reverse=True)
            ref_sol = reference(case, wt_model)
        except Exception as e:  # noqa
            return None, {"skipped": True, "stats": {"kind": "room", "skipped": "no reference: " + type(e).__name__}}
        if ref_sol is not None and ref_sol.status != "optimal":
            return None, {"skipped": True, "stats": {"kind": "room", "skipped": "no reference: " + ref_sol.status}}
        m = gennet.to_cobra(net, case["solver"])
        used = {}
        orig_pfba = room_mod.pfba

        def spy_pfba(model, *a, **kw):
            used["sol"] = orig_pfba(model, *a, **kw)
            return used["sol"]
        room_mod.pfba = spy_pfba
        try:
            seen = {"lp": "None"}

            def on_solve(model, kind, index):
                if kind != "optimize":
                    return
                got = read_lp(model, net, extra_cols=["room_old_objective"] + ["y_" + i for i in ids],
                              extra_rows=["room_old_objective_constraint"]
                              + ["room_constraint_upper_" + i for i in ids]
                              + ["room_constraint_lower_" + i for i in ids])
                if got is None:
                    seen["lp"] = "(Some (%s, []))" % BAD_LP
                else:
                    bins = [i for i, k in enumerate(got[1]) if k != "continuous"]
                    seen["lp"] = "(Some (%s, [%s]))" % (gennet.coq_lp(got[0]), "; ".join("%d%%nat" % i for i in bins))
                    obs["room_old_objective_bounds_in_solver"] = [None if b is None else float(b)
                                                                  for b in got[0]["vb"][2 * n]]
            with Recorder(net, on_solve) as rec:
                try:
                    sol = room_mod.room(m, solution=ref_sol, linear=linear, delta=delta, epsilon=eps)
                    exc = None
                except Exception as e:  # noqa
                    sol, exc = None, e
        finally:
            room_mod.pfba = orig_pfba
    fba = lpexact.certified(gennet.net_lp(net))
    if ref_sol is None:
        if "sol" not in used:
            if exc is not None and ((fba[0] == "infeasible" and type(exc).__name__ == "Infeasible") or
                                    (fba[0] == "unbounded" and type(exc).__name__ == "Unbounded")):
                return None, {"skipped": True, "stats": {"kind": "room", "skipped": "default reference: model %s" % fba[0]}}
            ref = [F(0)] * n
        else:
            ref = [qf(used["sol"].fluxes[i]) for i in ids]
    else:
        ref = [qf(ref_sol.fluxes[i]) for i in ids]
    dq, eq = F(delta), F(eps)
    wide = narrow = None
    lin = None
    skipped = False
    exact = {"model": fba[0]}
    if fba[0] != "infeasible":
        if linear:
            lin = lpexact.certified(room_lp_py(net, ref, dq, eq, True))
            if lin[0] == "optimal":
                exact["min_relaxed_sum"] = str(sum(lin[1][2 * n + 1:], F(0)))
        else:
            e = room_env(net, ref, dq, eq)
            wide = room_milp_cert(net, ref, dq, eq + e)
            narrow = room_milp_cert(net, ref, dq, eq - F(1, 10 ** 9))
            exact["min_outside_band"] = [None if wide is None else wide[0], None if narrow is None else narrow[0]]
            skipped = False
            exact["well_conditioned"] = wide is not None and narrow is not None and wide[0] == narrow[0]

    def milp_term(c):
        return "None" if c is None else "(Some (%s, %s))" % (vec(c[1]), c[2])
    sr = rec.sr(len(rec.log) - 1) if rec.log else DUMMY_SR
    out = exn_term(exc).replace("PRaise", "SRaise").replace("POther", "SOther") if exc is not None else sobs_term(sol, ids)
    if sol is not None:
        obs.update(status=sol.status, objective_value=sol.objective_value,
                   fluxes={k: float(v) for k, v in sol.fluxes.items()})
    if exc is not None:
        obs["exception"] = type(exc).__name__
    obs["reference"] = [float(x) for x in ref]
    obs["exact"] = exact
    term = "(CRoom (mkRoom %s %s %s %s %s %s %s %s %s %s %s %s))" % (
        gennet.coq_net(net), vec(ref), gennet.q(dq), gennet.q(eq), "true" if linear else "false",
        oracle_term(fba if fba[0] == "infeasible" else None), milp_term(wide), milp_term(narrow),
        oracle_term(lin), seen["lp"], sr, out)
    info = {"obs": obs, "nontrivial": fba[0] == "optimal",
            "stats": {"kind": "room-linear" if linear else "room", "model": fba[0], "ref": case.get("ref", "fba"),
                      "dir": net["dir"], "solver": case["solver"], "n_ko": len(case.get("ko") or []), "n_rxns": n,
                      "room_count": None if wide is None else wide[0], "delta": case["delta"]}}
    if not linear:
        info["stats"]["count_pinned_exactly"] = exact.get("well_conditioned")
    return term, info


def gen_room(rng, n):
    cases = []
    for k in range(n):
        linear = k % 3 == 2
        net = gennet.gen_network(rng, finite_only=True, genes=False, max_mets=5, max_rxns=9 if linear else 6,
                                 forced_p=0.15 if k % 6 == 0 else 0.04)
        ids = [r["id"] for r in net["rxns"]]
        delta, eps = [("0.03", "0.001"), ("1/32", "1/1024"), ("0", "1/2"), ("1/8", "0")][k % 4]
        c = {"kind": "room", "net": net, "solver": "glpk", "linear": linear,
             "delta": str(F(float(delta))) if "." in delta else delta,
             "epsilon": str(F(float(eps))) if "." in eps else eps,
             "ref": ["fba", "pfba", "fba", "default"][(k // 3) % 4], "ko": []}
        if rng.random() < 0.8:
            c["ko"] = rng.sample(ids, 1 if rng.random() < 0.7 else min(2, len(ids)))
        cases.append(c)
    return cases


# ------------------------------------------------------------------ driver interface
def gen_cases(rng, tier):
    quick = tier == "quick"
    only = os.environ.get("C09_ONLY")       # development aid: restrict to one analysis
    out = []
    for kind, gen, n in (("pfba", gen_pfba, 240 if quick else 3000), ("moma", gen_moma, 160 if quick else 2500),
                         ("room", gen_room, 48 if quick else 600)):
        cs = gen(rng, n)                     # always drawn, so that the streams do not depend on C09_ONLY
        if only in (None, "", kind):
            out += cs
    return out


def case_term(case):
    kind = case.get("kind", "pfba")
    if kind == "pfba":
        return pfba_case(case)
    if kind == "moma":
        return moma_case(case)
    if kind == "room":
        return room_case(case)
    raise ValueError("unknown case kind %r" % kind)


def signature(case, codes):
    return {"kind": case.get("kind"), "codes": [c for c in codes if c != 9]}


if __name__ == "__main__":
    sys.exit(lpcheck.main(sys.modules[__name__]))
