"""C13 -- analyses leave the model exactly as they found it.

  1. proof gate: Frame/{Model,Proofs,Current}.v + Properties/C13.v compile, Print Assumptions closed;
     Gen/Skeletons.v is regenerated from the CURRENT source by harness/tables_frame.py and the obligation
     `current_skeletons_within` (every analysis skeleton passes sk_ok or is a recorded exception) is re-proved;
  2. monitor on the real code: analysis x generated network x arguments x processes x inside/outside a user
     context x fault at the k-th solver call; full observation (harness/obsmodel.py) before and after must be
     identical; consecutive calls must give the same uniquely defined results; the calls' context events must
     stay inside the frame the Coq model assumes.  The comparison itself is the Coq function
     Frame/Check.v `failing`, evaluated by coqc on the hashed observations."""
import hashlib
import json
import math
import os
import random
import sys
import time
import traceback

sys.path.insert(0, os.path.dirname(os.path.abspath(__file__)))
import common as K  # noqa: E402
from common import C, coq  # noqa: E402

sys.path.insert(0, os.path.join(K.REPO, "src"))
PROP = "C13"
INF = float("inf")
SECTIONS = ["content", "bounds", "objective", "direction", "genes", "raw_problem", "context_solver"]

# ------------------------------------------------------------------------------------ instances

def base_spec(name, **kw):
    """A small network: import A, convert A->B->C (two routes), export C and D; genes on the conversions."""
    s = {
        "name": name,
        "mets": [["A_e", "e", "C6H12O6"], ["A_c", "c", "C6H12O6"], ["B_c", "c", "C3H6O3"], ["C_c", "c", "C3H6O3"],
                 ["D_c", "c", "CO2"], ["C_e", "e", "C3H6O3"], ["D_e", "e", "CO2"]],
        "rxns": [
            ["EX_A_e", {"A_e": -1}, -10, 1000, ""],
            ["EX_C_e", {"C_e": -1}, 0, 1000, ""],
            ["EX_D_e", {"D_e": -1}, -1, 1000, ""],
            ["T_A", {"A_e": -1, "A_c": 1}, 0, 1000, "g_t"],
            ["R1", {"A_c": -1, "B_c": 2}, 0, 1000, "g1 and g2"],
            ["R2", {"B_c": -1, "C_c": 1}, 0, 8, "g3 or g4"],
            ["R3", {"B_c": -1, "C_c": 1, "D_c": 0.5}, 0, 4, "g4"],
            ["T_C", {"C_c": -1, "C_e": 1}, -1000, 1000, ""],
            ["T_D", {"D_c": -1, "D_e": 1}, -1000, 1000, "g5"],
            ["BIO", {"C_c": -1, "D_c": -0.5}, 0, 1000, ""],
        ],
        "objective": {"BIO": 1}, "direction": "max", "flags": [],
    }
    s.update(kw)
    return s


def instances(rng, tier):
    out = []
    b = base_spec("chain")
    out.append(b)
    s = base_spec("cycle")
    s["mets"] += [["X_c", "c", ""], ["Y_c", "c", ""], ["Z_c", "c", ""]]
    s["rxns"] += [["CY1", {"X_c": -1, "Y_c": 1}, -20, 20, ""], ["CY2", {"Y_c": -1, "Z_c": 1}, -20, 20, "g6"],
                  ["CY3", {"Z_c": -1, "X_c": 1}, -20, 20, ""], ["CYIN", {"B_c": -1, "X_c": 1}, -5, 5, ""],
                  ["CYOUT", {"Z_c": -1, "C_c": 1}, 0, 5, ""]]
    out.append(s)
    s = base_spec("infeasible")
    s["rxns"][4][2] = 7          # R1 forced to 7 but only 10 A available and R2+R3 take at most 12 B ... make it hard
    s["rxns"][0][2] = -1         # import at most 1
    out.append(s)
    s = base_spec("unbounded")
    for r in s["rxns"]:
        if r[0] in ("EX_A_e", "T_A", "R1", "R2", "T_C", "EX_C_e", "BIO", "EX_D_e", "T_D"):
            r[3] = INF
        if r[0] in ("EX_A_e", "EX_D_e"):
            r[2] = -INF
    s["rxns"].append(["EX_C_c", {"C_c": -1}, -INF, 0, ""])    # free source of C_c
    s["rxns"].append(["EX_D_c", {"D_c": -1}, -INF, 0, ""])
    out.append(s)
    s = base_spec("unbounded_min", direction="max", objective={"BIO": -1})
    for r in s["rxns"]:
        r[3] = INF if r[3] == 1000 else r[3]
        if r[0] in ("EX_A_e", "EX_D_e"):
            r[2] = -INF
    s["rxns"][5][3] = INF
    s["rxns"][6][3] = INF
    out.append(s)
    s = base_spec("degenerate", objective={})
    s["rxns"][5][3] = 0          # R2 closed
    s["rxns"].append(["DEAD", {"B_c": -1, "W_c": 1}, 0, 10, "g7"])
    s["mets"].append(["W_c", "c", ""])
    out.append(s)
    s = base_spec("minimise", direction="min", objective={"EX_A_e": 1, "BIO": -2})
    out.append(s)
    s = base_spec("forced", flags=[])
    s["rxns"][9][2] = 2          # BIO >= 2
    s["rxns"][6][2] = 0.5        # R3 >= 1/2
    out.append(s)
    s = base_spec("prefixed", flags=["fixed_objective"])   # the user fixed the objective as a constraint before
    out.append(s)
    s = base_spec("prefixed_half", flags=["fixed_objective_half"])
    out.append(s)
    s = base_spec("orphan_gene", flags=["orphan_gene"])    # a gene of the model that no rule uses any more
    out.append(s)
    # seeded variations of the bounds / objective
    nvar = 3 if tier == "quick" else 12
    for i in range(nvar):
        s = base_spec("variant%d" % i)
        for r in s["rxns"]:
            if rng.random() < 0.35 and r[3] not in (0,):
                r[3] = rng.choice([1, 2, 5, 10, 1000, 0.5])
            if rng.random() < 0.2:
                r[2] = rng.choice([0, -1, -5, 0.25 if r[3] >= 1 else 0])
            if r[2] > r[3]:
                r[2] = r[3]
        s["objective"] = rng.choice([{"BIO": 1}, {"R2": 1, "R3": 2}, {"EX_C_e": 1}, {"BIO": 1, "EX_A_e": 0.5}])
        s["direction"] = rng.choice(["max", "max", "min"])
        out.append(s)
    if tier == "thorough":
        out.append({"name": "textbook", "load": "textbook", "flags": []})
    return out


def build(spec):
    import cobra
    from cobra import Metabolite, Model, Reaction
    if spec.get("load"):
        import cobra.io
        m = cobra.io.load_model(spec["load"])
        return m
    m = Model(spec["name"])
    mets = {i: Metabolite(i, compartment=c, formula=f or None) for i, c, f in spec["mets"]}
    rs = []
    for rid, st, lb, ub, gpr in spec["rxns"]:
        r = Reaction(rid, lower_bound=lb, upper_bound=ub)
        r.add_metabolites({mets[k]: v for k, v in st.items()})
        if gpr:
            r.gene_reaction_rule = gpr
        rs.append(r)
    m.add_reactions(rs)
    m.objective = {m.reactions.get_by_id(k): v for k, v in spec["objective"].items()}
    m.objective_direction = spec["direction"]
    if "orphan_gene" in spec["flags"]:
        # a rule that named one more gene for a while: the gene stays in model.genes without any reaction (documented)
        r = m.reactions.get_by_id("R2")
        old = r.gene_reaction_rule
        r.gene_reaction_rule = "(%s) or zz_orphan" % old
        r.gene_reaction_rule = old
    if "fixed_objective" in spec["flags"]:
        from cobra.util.solver import fix_objective_as_constraint
        fix_objective_as_constraint(m, fraction=1.0)
    if "fixed_objective_half" in spec["flags"]:
        from cobra.util.solver import fix_objective_as_constraint
        fix_objective_as_constraint(m, fraction=0.5)
    return m


# ------------------------------------------------------------------------------------ analyses

def _df(frame, cols):
    return sorted([[str(i)] + [float(frame.at[i, c]) for c in cols] for i in frame.index])


def _deletion(frame):
    return sorted([[",".join(sorted(ids)), float(g), str(s)] for ids, g, s in
                   zip(frame["ids"], frame["growth"], frame["status"])])


def _universal():
    from cobra import Metabolite, Model, Reaction
    u = Model("universal")
    r = Reaction("U1", lower_bound=0, upper_bound=1000)
    r.add_metabolites({Metabolite("B_c", compartment="c"): -1, Metabolite("C_c", compartment="c"): 1})
    r2 = Reaction("U2", lower_bound=0, upper_bound=1000)
    r2.add_metabolites({Metabolite("A_c", compartment="c"): -1, Metabolite("C_c", compartment="c"): 2})
    # a reaction over a metabolite the model does not have (the universal model usually knows more metabolites)
    r3 = Reaction("U3", lower_bound=0, upper_bound=1000)
    r3.add_metabolites({Metabolite("A_c", compartment="c"): -1, Metabolite("ZZ_only_universal_c", compartment="c"): 1})
    r4 = Reaction("U4", lower_bound=0, upper_bound=1000)
    r4.add_metabolites({Metabolite("ZZ_only_universal_c", compartment="c"): -1, Metabolite("C_c", compartment="c"): 1})
    u.add_reactions([r, r2, r3, r4])
    return u


def analyses():
    """name -> (callable(model, processes) -> uniquely defined result or None, uses_processes, tags)"""
    import cobra
    from cobra import Reaction
    from cobra import flux_analysis as fa
    from cobra.flux_analysis import gapfilling, loopless, reaction as fa_reaction
    from cobra.flux_analysis.fastcc import fastcc
    from cobra.medium import minimal_medium
    from cobra.sampling import sample
    A = {}

    def reg(name, fn, par=False, tags=()):
        A[name] = (fn, par, tuple(tags))

    def sol(s):
        # the objective value is a uniquely defined quantity only for an optimal solution
        return [str(s.status), float(s.objective_value) if s.status == "optimal" and s.objective_value is not None
                else None]
    reg("optimize", lambda m, p: sol(m.optimize()))
    reg("optimize_min", lambda m, p: sol(m.optimize(objective_sense="minimize")))
    reg("optimize_max_raise", lambda m, p: sol(m.optimize(objective_sense="maximize", raise_error=True)))
    reg("slim_optimize", lambda m, p: [float(m.slim_optimize())])
    reg("slim_optimize_raise", lambda m, p: [float(m.slim_optimize(error_value=None))])
    reg("fva", lambda m, p: _df(fa.flux_variability_analysis(m, processes=p), ["minimum", "maximum"]), True)
    reg("fva_half", lambda m, p: _df(fa.flux_variability_analysis(m, fraction_of_optimum=0.5, processes=p,
        reaction_list=["R2", "R3", "EX_A_e"] if "R2" in m.reactions else None), ["minimum", "maximum"]), True)
    reg("fva_loopless", lambda m, p: _df(fa.flux_variability_analysis(m, loopless=True, processes=p),
                                         ["minimum", "maximum"]), True)
    reg("fva_pfba", lambda m, p: _df(fa.flux_variability_analysis(m, pfba_factor=1.5, processes=p,
                                                                  fraction_of_optimum=0.9), ["minimum", "maximum"]), True)
    reg("find_blocked", lambda m, p: sorted(fa.find_blocked_reactions(m, processes=p)), True)
    reg("find_blocked_open", lambda m, p: sorted(fa.find_blocked_reactions(m, open_exchanges=True, processes=p)), True)
    reg("essential_genes", lambda m, p: sorted(g.id for g in fa.find_essential_genes(m, processes=p)), True)
    reg("essential_reactions", lambda m, p: sorted(r.id for r in fa.find_essential_reactions(m, processes=p)), True)
    reg("essential_genes_thr", lambda m, p: sorted(g.id for g in fa.find_essential_genes(m, threshold=0.5, processes=p)), True)
    reg("pfba", lambda m, p: sol(fa.pfba(m)))
    reg("pfba_frac_obj", lambda m, p: sol(fa.pfba(m, fraction_of_optimum=0.5, objective={m.reactions[4]: 1.0})))
    reg("pfba_bad_objective", lambda m, p: sol(fa.pfba(m, objective={m.reactions[1]: 2.0, Reaction("FOREIGN"): 1.0})),
        tags=("bad_objective",))
    reg("moma_linear", lambda m, p: sol(fa.moma(m, linear=True)))
    reg("moma_linear_ref", lambda m, p: sol(fa.moma(m, solution=fa.pfba(m), linear=True)))
    reg("room_linear", lambda m, p: sol(fa.room(m, linear=True)))
    reg("room_mip", lambda m, p: sol(fa.room(m, linear=False, delta=0.05)))
    reg("geometric_fba", lambda m, p: sol(fa.geometric_fba(m, processes=p, max_tries=20)), True)
    reg("geometric_fba_small_epsilon", lambda m, p: sol(fa.geometric_fba(m, epsilon=1e-9, processes=p, max_tries=20)), True)
    reg("loopless_solution", lambda m, p: sol(fa.loopless_solution(m)))
    reg("loopless_solution_fluxes", lambda m, p: sol(fa.loopless_solution(m, fluxes=m.optimize().fluxes)))

    def with_add_loopless(m, p):
        with m:
            fa.add_loopless(m)
            return sol(m.optimize())
    reg("add_loopless_in_context", with_add_loopless)
    reg("single_reaction_deletion", lambda m, p: _deletion(fa.single_reaction_deletion(m, processes=p)), True)
    reg("single_reaction_deletion_moma", lambda m, p: _deletion(fa.single_reaction_deletion(
        m, reaction_list=list(m.reactions)[3:7], method="linear moma", processes=p)), True)
    reg("single_reaction_deletion_room", lambda m, p: _deletion(fa.single_reaction_deletion(
        m, reaction_list=list(m.reactions)[3:6], method="linear room", processes=p)), True)
    reg("single_gene_deletion", lambda m, p: _deletion(fa.single_gene_deletion(m, processes=p)), True)
    reg("double_reaction_deletion", lambda m, p: _deletion(fa.double_reaction_deletion(
        m, reaction_list1=list(m.reactions)[3:7], reaction_list2=list(m.reactions)[4:8], processes=p)), True)
    reg("double_gene_deletion", lambda m, p: _deletion(fa.double_gene_deletion(
        m, gene_list1=list(m.genes)[:3], processes=p)), True)
    reg("production_envelope", lambda m, p: _df(fa.production_envelope(
        m, reactions=[m.reactions[0]], points=3), ["flux_minimum", "flux_maximum"]))
    reg("production_envelope_obj", lambda m, p: _df(fa.production_envelope(
        m, reactions=[m.reactions[0]], objective=m.reactions[1], carbon_sources=[m.reactions[0]], points=3),
        ["flux_minimum", "flux_maximum"]))
    reg("production_envelope_bad_objective", lambda m, p: _df(fa.production_envelope(
        m, reactions=[m.reactions[0]], objective={m.reactions[1]: 1.0, Reaction("FOREIGN"): 1.0}, points=3),
        ["flux_minimum", "flux_maximum"]), tags=("bad_objective",))
    reg("assess", lambda m, p: json.dumps(fa_reaction.assess(m, m.reactions[-1]), default=str, sort_keys=True))
    reg("assess_blocked", lambda m, p: json.dumps(fa_reaction.assess(m, m.reactions[6], flux_coefficient_cutoff=100.0),
                                                  default=str, sort_keys=True))
    reg("assess_component_reactants", lambda m, p: json.dumps(fa_reaction.assess_component(
        m, m.reactions[-1], "reactants", flux_coefficient_cutoff=100.0), default=str, sort_keys=True))
    reg("assess_component_products", lambda m, p: json.dumps(fa_reaction.assess_component(
        m, m.reactions[6], "products", flux_coefficient_cutoff=100.0), default=str, sort_keys=True))

    def mm(res):
        if res is None:
            return None
        return float(res.sum().sum()) if hasattr(res, "sum") else None
    reg("minimal_medium", lambda m, p: mm(minimal_medium(m, min_objective_value=0.5)))
    reg("minimal_medium_exports_open", lambda m, p: mm(minimal_medium(m, 0.5, exports=True, open_exchanges=True)))
    reg("minimal_medium_components", lambda m, p: None if minimal_medium(m, 0.5, minimize_components=True) is None
        else len(minimal_medium(m, 0.5, minimize_components=True)))
    reg("minimal_medium_components2", lambda m, p: None if minimal_medium(
        m, 0.5, minimize_components=2, open_exchanges=50) is None else 1)
    reg("gapfill", lambda m, p: [len(x) for x in gapfilling.gapfill(m, _universal(), lower_bound=0.5,
                                                                   demand_reactions=False)])
    reg("gapfill_iter_demand", lambda m, p: [len(x) for x in gapfilling.gapfill(m, _universal(), lower_bound=50.0,
                                                                               iterations=2)])
    reg("fastcc", lambda m, p: sorted(r.id for r in fastcc(m).reactions))
    reg("sample_achr", lambda m, p: list(sample(m, 3, method="achr", thinning=2, seed=7).shape))
    reg("sample_optgp", lambda m, p: list(sample(m, 3, method="optgp", thinning=2, processes=p, seed=7).shape), True)
    reg("model_summary", lambda m, p: str(m.summary().to_string())[:0])
    reg("model_summary_fva", lambda m, p: str(m.summary(fva=0.9).to_string())[:0])
    reg("metabolite_summary", lambda m, p: str(m.metabolites[2].summary().to_string())[:0])
    reg("metabolite_summary_fva", lambda m, p: str(m.metabolites[2].summary(fva=0.9).to_string())[:0])
    reg("reaction_summary", lambda m, p: str(m.reactions[4].summary())[:0])
    reg("reaction_summary_fva", lambda m, p: str(m.reactions[4].summary(fva=0.5))[:0])
    return A


# ------------------------------------------------------------------------------------ observation

def sections(obs):
    def byid(lst, key="id"):
        return sorted(lst, key=lambda x: str(x.get(key)))
    rx, raw = byid(obs["reactions"]), obs["raw"]
    content = {
        "id": obs["id"], "name": obs["name"], "compartments": obs["compartments"], "used": obs["compartments_used"],
        "reactions": [{k: v for k, v in r.items() if k not in ("lower_bound", "upper_bound", "objective_coefficient")}
                      for r in rx],
        "metabolites": byid(obs["metabolites"]),
        "genes": [{k: v for k, v in g.items() if k != "functional"} for g in byid(obs["genes"])],
        "groups": byid(obs["groups"]), "index_ok": obs["index_ok"],
    }
    cols, rows = byid(raw["columns"], "name"), byid(raw["rows"], "name")
    secs = [
        content,
        [[r["id"], r["lower_bound"], r["upper_bound"]] for r in rx],
        [[[r["id"], r["objective_coefficient"]] for r in rx], [[c["name"], c["obj"]] for c in cols], raw["constant"]],
        [obs["objective_direction"], raw["direction"]],
        [[g["id"], g["functional"]] for g in byid(obs["genes"])],
        [[[c["name"], c["kind"], c["bounds"]] for c in cols], rows, raw["column_names_unique"], raw["row_names_unique"]],
        [obs["context_depth"], obs["solver"], obs["tolerance"]],
    ]
    return [int(hashlib.sha1(json.dumps(s, sort_keys=True).encode()).hexdigest()[:15], 16) for s in secs]


def same(a, b, tol=1e-6):
    if isinstance(a, float) or isinstance(b, float):
        if a is None or b is None:
            return a is b
        a, b = float(a), float(b)
        if math.isnan(a) or math.isnan(b):
            return math.isnan(a) and math.isnan(b)
        if math.isinf(a) or math.isinf(b):
            return a == b
        return abs(a - b) <= tol * max(1.0, abs(a), abs(b))
    if isinstance(a, (list, tuple)) and isinstance(b, (list, tuple)):
        return len(a) == len(b) and all(same(x, y, tol) for x, y in zip(a, b))
    return a == b


# ------------------------------------------------------------------------------------ one case

class Hooks:
    """fault injection at the k-th solver call + event recording for one model"""
    def __init__(self):
        self.n, self.k, self.mode, self.target, self.events, self.on = 0, None, None, None, [], False

    def install(self):
        import optlang.glpk_interface as gi
        from optlang.exceptions import SolverError
        import cobra.core.model as cm
        import cobra.util.context as cc
        h = self
        orig_opt = gi.Model.optimize
        orig_enter, orig_exit, orig_call = cm.Model.__enter__, cm.Model.__exit__, cc.HistoryManager.__call__

        def optimize(self, *a, **kw):
            if h.on:
                h.n += 1
                if h.target is not None and self is h.target.solver:
                    h.events.append(3)
                if h.k is not None and h.n == h.k:
                    if h.mode == "raise":
                        raise SolverError("injected fault at solver call %d" % h.n)
                    self._status = "infeasible"
                    return "infeasible"
            return orig_opt(self, *a, **kw)

        def enter(self):
            if h.on and self is h.target:
                h.events.append(0)
            return orig_enter(self)

        def exit_(self, *a):
            if h.on and self is h.target:
                h.events.append(1)
            return orig_exit(self, *a)

        def call(self, op):
            if h.on and h.target is not None and any(self is c for c in h.target._contexts):
                h.events.append(2)
            return orig_call(self, op)
        gi.Model.optimize = optimize
        cm.Model.__enter__, cm.Model.__exit__, cc.HistoryManager.__call__ = enter, exit_, call


HOOKS = None


def run_case(case):
    """case: dict(spec, analysis, processes, ctx, fault=[k, mode] | None, repeat=bool)"""
    global HOOKS
    import logging
    import warnings
    warnings.simplefilter("ignore")
    logging.disable(logging.CRITICAL)
    import obsmodel
    if HOOKS is None:
        HOOKS = Hooks()
        HOOKS.install()
    h = HOOKS
    t0 = time.time()
    res = {"ok": True}
    try:
        fn, par, tags = analyses()[case["analysis"]]
        model = build(case["spec"])
        if case["ctx"]:
            model.__enter__()
            model.reactions[1].upper_bound = 900       # something of the user's own on the undo stack
            model.objective_direction = model.objective_direction
        if case.get("stale"):
            try:
                sol0 = model.optimize()
                carrying = [r for r in model.reactions if sol0.status == "optimal" and abs(sol0.fluxes[r.id]) > 1e-9
                            and r.objective_coefficient == 0]
                if carrying:
                    carrying[len(carrying) // 2].knock_out()
            except Exception:  # noqa
                pass
        before = obsmodel.observe(model)
        h.n, h.events, h.target = 0, [], model
        h.k, h.mode = (case["fault"] if case["fault"] else (None, None))
        h.on = True
        out1 = exc = None
        try:
            out1 = fn(model, case["processes"])
        except BaseException as e:  # noqa
            if isinstance(e, (KeyboardInterrupt, SystemExit, MemoryError)):
                raise
            exc = type(e).__name__
        finally:
            h.on = False
        nsolves, events = h.n, list(h.events)
        after = obsmodel.observe(model)
        res.update(before=sections(before), after=sections(after), events=events, nsolves=nsolves,
                   outcome=exc or "returned", diff=obsmodel.diff(before, after)[:12])
        repeat_ok, detail = True, None
        if case.get("repeat") and not case["fault"] and not res["diff"]:
            h.on, h.k = False, None
            out2 = exc2 = None
            try:
                out2 = fn(model, case["processes"])
            except BaseException as e:  # noqa
                exc2 = type(e).__name__
            # fastcc's returned reaction set is not a uniquely defined quantity as long as the known finding
            # C19-fastcc-incomplete stands (which unblocked reversible reactions it drops depends on the vertex
            # the LP solver happens to return, hence on the solver state left by the first call): only that it
            # raises / returns alike is compared for it
            unique = case["analysis"] != "fastcc"
            if exc != exc2 or (unique and not same(out1, out2)):
                repeat_ok, detail = False, {"first": exc or out1, "second": exc2 or out2}
            after2 = obsmodel.observe(model)
            if obsmodel.diff(before, after2):
                res["after"] = sections(after2)
                res["diff"] = obsmodel.diff(before, after2)[:12]
        res.update(repeat_ok=repeat_ok, repeat_detail=detail)
    except BaseException as e:  # harness problem (instance cannot be built, ...)
        res = {"ok": False, "error": "%s: %s" % (type(e).__name__, e), "tb": traceback.format_exc()[-1500:]}
    res["wall"] = round(time.time() - t0, 3)
    return res


def case_term(r):
    return coq(C("mkCase", r["before"], r["after"], [K.nat(e) for e in r["events"]], bool(r["repeat_ok"])))


HEADER = """From Coq Require Import ZArith List Bool.
From Cobra.Frame Require Import Check.
Import ListNotations.
Open Scope Z_scope."""


# ------------------------------------------------------------------------------------ findings

def leak_class(case, r):
    d = r.get("diff") or []
    paths = [x.split(":")[0] for x in d]
    tags = analyses()[case["analysis"]][2]
    if d and all(("objective_direction" in p) or p.startswith("raw['direction']") or p == "raw[direction]"
                 or "direction" in p for p in paths) and r["outcome"] != "returned":
        return "objective_direction_left_changed_after_exception"
    if d and "bad_objective" in tags and all(("obj" in p) or ("direction" in p) for p in paths):
        return "objective_left_changed_after_rejected_objective_argument"
    if d and all("fixed_objective_" in x for x in d) and any(f.startswith("fixed_objective") for f in
                                                              case["spec"].get("flags", [])):
        return "user_fixed_objective_constraint_removed"
    if not d and not r.get("repeat_ok", True):
        return "repeat_differs"
    return "other"


def signature(case, r, codes):
    return {"leak": leak_class(case, r), "analysis": case["analysis"] if leak_class(case, r) == "other" else "*"}


# ------------------------------------------------------------------------------------ main

BIG_M = {"add_loopless_in_context", "room_mip", "room_linear", "minimal_medium_components", "minimal_medium_components2",
         "gapfill", "gapfill_iter_demand", "single_reaction_deletion_room"}

def make_cases(rng, tier, A, specs):
    """base cases (no fault) for the seed-determined subset"""
    names = sorted(A)
    cases = []
    per = 4 if tier == "quick" else len(specs)
    for i, a in enumerate(names):
        # rotating, seed-determined choice of instances; the special instances always get their turn
        pool = list(specs)
        rng.shuffle(pool)
        chosen = pool[:per]
        for s in specs:
            if tier == "quick" and s["name"] in ("prefixed", "unbounded_min", "infeasible") and s not in chosen \
                    and rng.random() < 0.5:
                chosen.append(s)
        for s in specs:
            if s["name"] == "orphan_gene" and "gene" in a and s not in chosen:
                chosen.append(s)      # the analyses that knock genes out always meet the gene without reactions
        for s in chosen:
            if s["name"].startswith("unbounded") and a in BIG_M:
                continue          # infinite big-M coefficient: GLPK aborts the process (not a C13 matter)
            if s.get("load") and a in ("double_gene_deletion", "double_reaction_deletion", "geometric_fba",
                                       "room_mip", "fva_loopless", "gapfill_iter_demand", "gapfill"):
                continue
            for ctx in (False, True):
                cases.append({"spec": s, "analysis": a, "processes": 1, "ctx": ctx, "fault": None, "repeat": True})
            if tier == "thorough" or rng.random() < 0.35:
                # the solver still holds the optimum of an EARLIER state of the model (optimised, then edited)
                cases.append({"spec": s, "analysis": a, "processes": 1, "ctx": False, "fault": None, "repeat": True,
                              "stale": True})
            if A[a][1] and (tier == "thorough" or rng.random() < 0.25):
                cases.append({"spec": s, "analysis": a, "processes": 2, "ctx": rng.random() < 0.5, "fault": None,
                              "repeat": False})
    return cases


def fault_cases(rng, tier, base, results):
    out = []
    kmax = 6 if tier == "quick" else 10
    per = 2 if tier == "quick" else 5
    for c, r in zip(base, results):
        if not r.get("ok") or c["processes"] != 1:
            continue
        n = min(r["nsolves"], kmax)
        if n == 0:
            continue
        ks = list(range(1, n + 1))
        rng.shuffle(ks)
        for k in sorted(ks[:per]):
            out.append(dict(c, fault=[k, "raise"], repeat=False))
        k = rng.choice(ks)
        out.append(dict(c, fault=[k, "infeasible"], repeat=False))
    return out


class CaseTimeout(BaseException):
    pass


def _alarm(signum, frame):
    raise CaseTimeout()


def _worker(items, q):
    import signal
    signal.signal(signal.SIGALRM, _alarm)
    for idx, case in items:
        q.put(("start", idx, None))
        signal.alarm(CASE_TIMEOUT)
        try:
            r = run_case(case)
        except CaseTimeout:
            r = dict(ABORTED, outcome="CASE_TIMEOUT")
        finally:
            signal.alarm(0)
        q.put(("done", idx, r))
    q.put(("exit", -1, None))


CASE_TIMEOUT = 90
ABORTED = {"ok": True, "aborted": True, "before": [0], "after": [0], "events": [], "nsolves": 0,
           "outcome": "PROCESS_ABORTED_BY_SOLVER_LIBRARY", "diff": [], "repeat_ok": True, "repeat_detail": None, "wall": 0}


def run_all(cases):
    """Run the cases in worker processes.  GLPK aborts the whole process on some inputs (e.g. an infinite
    big-M coefficient): a case that kills its worker is recorded as such and the rest is re-dispatched."""
    import multiprocessing as mp
    import queue as queue_mod
    ctx = mp.get_context("fork")
    jobs = max(1, min(K.JOBS, 8))
    results = [None] * len(cases)
    todo = list(range(len(cases)))
    while todo:
        q = ctx.Queue()
        n = min(jobs, len(todo))
        slices = [todo[i::n] for i in range(n)]
        procs = [ctx.Process(target=_worker, args=([(i, cases[i]) for i in sl], q)) for sl in slices]
        for p in procs:
            p.start()
        started, exited, last = set(), 0, time.time()
        while exited < n:
            try:
                kind, idx, r = q.get(timeout=2)
                last = time.time()
            except queue_mod.Empty:
                if time.time() - last > 2 * CASE_TIMEOUT:      # a worker hangs inside native code
                    for p in procs:
                        if p.is_alive():
                            p.kill()
                if all(not p.is_alive() for p in procs):
                    # drain what is left, then stop waiting
                    try:
                        while True:
                            kind, idx, r = q.get(timeout=0.5)
                            if kind == "start":
                                started.add(idx)
                            elif kind == "done":
                                results[idx] = r
                    except queue_mod.Empty:
                        pass
                    break
                continue
            if kind == "start":
                started.add(idx)
            elif kind == "done":
                results[idx] = r
            else:
                exited += 1
        for p in procs:
            p.join(timeout=5)
        for idx in started:
            if results[idx] is None:
                results[idx] = dict(ABORTED)
        todo = [i for i in todo if results[i] is None]
    return results


def rejected_report():
    """ask Coq which entry points the static check rejects without a recorded exception"""
    import tempfile
    tmp = tempfile.mkdtemp(prefix="verif_c13_")
    p = os.path.join(tmp, "rej.v")
    open(p, "w").write("From Coq Require Import List String.\nFrom Cobra.Frame Require Import Model Current.\n"
                       "Eval vm_compute in unexplained.\nEval vm_compute in (map fst rejected).\n")
    rc, out = K.sh(["coqc"] + K.COQ_FLAGS + [p], cwd=tmp, timeout=300)
    import shutil
    shutil.rmtree(tmp, ignore_errors=True)
    return rc, " ".join(out.split())


def main(argv=None):
    args = K.parse_args(argv)
    rep = K.Reporter(PROP, args.tier, args.seed)
    # Current.v may fail to compile (that IS the broken obligation): build Check.vo and Proofs.vo separately
    info, broken = K.standard_prelude(PROP, rep, extra_targets=["theories/Frame/Check.vo"])
    static = {"unexplained": None}
    if broken:
        K.build(["theories/Frame/Check.vo", "theories/Frame/Proofs.vo", "theories/Gen/Skeletons.vo"])
        # is it only the per-run obligation?  then say which entry point
        ok2, _ = K.build(["theories/Frame/Proofs.vo", "theories/Gen/Skeletons.vo"])
        if ok2:
            src = open(os.path.join(K.THEORIES, "Frame", "Current.v")).read()
            cut = src.index("Lemma current_skeletons_within")
            import tempfile
            tmp = tempfile.mkdtemp(prefix="verif_c13_")
            open(os.path.join(tmp, "Cur.v"), "w").write(src[:cut] + "\nEval vm_compute in unexplained.\n")
            rc, out = K.sh(["coqc"] + K.COQ_FLAGS + [os.path.join(tmp, "Cur.v")], cwd=tmp, timeout=300)
            static["unexplained"] = " ".join(out.split())[-1500:]
            import shutil
            shutil.rmtree(tmp, ignore_errors=True)
    rng = random.Random(args.seed)
    A = analyses()
    specs = instances(rng, args.tier)

    if args.replay:
        rp = json.load(open(args.replay))
        base = [rp["case"]] if "case" in rp else []
        faults = []
    else:
        base = make_cases(rng, args.tier, A, specs)
    t1 = time.time()
    res_base = run_all(base)
    if not args.replay:
        faults = fault_cases(rng, args.tier, base, res_base)
    res_fault = run_all(faults)
    cases, results = base + faults, res_base + res_fault
    impl_wall = time.time() - t1

    harness_errors = [(c, r) for c, r in zip(cases, results) if not r.get("ok")]
    good = [(c, r) for c, r in zip(cases, results) if r.get("ok")]
    terms = [case_term(r) for _, r in good]
    res, faults_coq = K.coq_eval_cases(HEADER, terms, "case", "failing", shard=400)
    if faults_coq:
        print("HARNESS FAULT: Coq evaluation of the monitor failed:\n" + "\n".join(faults_coq[:2]))
        if not broken:
            broken.append("monitor evaluation (coqc on generated cases) failed: " + faults_coq[0][-600:])
    if harness_errors:
        print("HARNESS FAULT: %d cases could not be run, first: %s" % (len(harness_errors), harness_errors[0][1]["error"]))
        if not broken:
            broken.append("case runner failed: " + harness_errors[0][1]["error"] + harness_errors[0][1].get("tb", ""))

    # decide
    seen = {}
    n_fail = 0
    for idx, lst in sorted(res):
        n_fail += 1
        c, r = good[idx]
        codes = sorted({code for _, code in lst})
        sig = signature(c, r, codes)
        keyk = (sig["leak"], c["analysis"] if sig["leak"] == "other" else "")
        if keyk in seen:
            seen[keyk] += 1
            continue
        seen[keyk] = 1
        small, rs = shrink(c, r) if not args.replay else (c, r)
        what = []
        if 1 in codes:
            what.append("the call recorded an undo outside its own `with model:` blocks or left a context open")
        if any(10 <= x < 30 for x in codes):
            what.append("model differs after the call in: " + ", ".join(SECTIONS[x - 10] for x in codes if 10 <= x < 29))
        if 30 in codes:
            what.append("two consecutive calls gave different uniquely defined results")
        replay = {"case": small, "failed": "; ".join(what), "codes": codes, "outcome_of_call": rs["outcome"],
                  "differences_before_after": rs["diff"], "repeat_detail": rs.get("repeat_detail"),
                  "solver_calls_made": rs["nsolves"], "events": rs["events"],
                  "how_to_read": "case.spec is the network (mets [id, compartment, formula], rxns [id, stoichiometry, lb, "
                                 "ub, gene rule]); analysis names the call (harness/c13.py analyses()); ctx = called inside "
                                 "a user `with model:`; fault = [k, mode]: the k-th solver.optimize() of the call raises "
                                 "SolverError / reports 'infeasible' without solving",
                  "theorem": "C13_sk_ok_restores / C13_current_skeletons_within (coq/theories/Properties/C13.v)"}
        rep.violation(signature(small, rs, codes), replay)

    if broken and rep.violations == 0:
        rep.violation({"broken": True}, {"broken_obligations": broken, "static_check_unexplained_rejections": static,
                      "note": "a proof obligation (most likely the regenerated skeleton obligation "
                              "current_skeletons_within) or the machinery no longer checks; the monitor found no "
                              "concrete failing input in this run"}, no_input=True)

    # evidence
    dist = {"analysis": {}, "instance": {}, "outcome": {}, "fault": {}, "ctx": {}, "processes": {}}
    for c, r in good:
        for k, v in (("analysis", c["analysis"]), ("instance", c["spec"]["name"]), ("outcome", r["outcome"]),
                     ("fault", "none" if not c["fault"] else c["fault"][1]), ("ctx", str(c["ctx"])),
                     ("processes", str(c["processes"]))):
            dist[k][v] = dist[k].get(v, 0) + 1
    nontrivial = {json.dumps([c["spec"]["name"], c["analysis"], c["processes"], c["ctx"], c["fault"]]) for c, r in good
                  if r["nsolves"] > 0 or r["events"]}
    try:
        import tables_frame
        _, tables, skels, used, exc = tables_frame.render(K.REPO)
        table_ev = {"mutator_flavours_derived_from_source": tables, "shapes_classified": used,
                    "skeleton_sizes": {n: tables_frame.size(s) for n, s in skels},
                    "recorded_exceptions": exc,
                    "skeletons_digest": hashlib.sha1(json.dumps([[n, tables_frame.coq(s)] for n, s in skels]).encode()).hexdigest()}
    except Exception as e:  # noqa
        table_ev = {"translator_failed": "%s: %s" % (type(e).__name__, e)}
    evidence = {
        "level": "proof",
        "coverage": {
            "obligations": info["obligations"] + 1, "discharged": info["discharged"] + (1 if info["ok"] else 0),
            "obligation_note": "+1 = Frame/Current.v current_skeletons_within over the regenerated Gen/Skeletons.v",
            "checker_cmd": info["checker_cmd"],
            "trusted_base": K.TRUSTED_COMMON + [
                "harness/tables_frame.py classification tables (printed below) and its call/alias resolution",
                "assumption A1: optlang container operations (add/remove/objective assignment) on objects built by the "
                "analysis either complete or raise before changing the problem",
                "assumption A2: raw edits of variable/constraint attributes target objects added in an open `with model:` block",
                "harness/obsmodel.py (observation incl. swiglpk read-back of the raw GLPK problem)",
                "solver warm-start state is not observed"],
            "axioms_reported_by_Print_Assumptions": info["axioms"],
            "evaluations": len(good), "distinct_nontrivial": len(nontrivial),
            "rule": "a case = one call of an analysis on a freshly built network; non-trivial when the call reached the "
                    "solver or opened/recorded on a context; quick tier = every analysis x a rotating seed-determined "
                    "subset of 4-6 instances x inside/outside a user context, processes=2 for a quarter of the "
                    "parallel-capable ones, and per base case 2 raising + 1 infeasible fault points drawn from 1..min(N,6) "
                    "where N = solver calls of the fault-free run; thorough = all instances, 5+1 fault points from 1..10",
            "samples": [cases[i] for i in ([0, len(cases) // 2, len(cases) - 1] if cases else [])],
            "traces_validated_against_impl": len(good) - n_fail, "disagreements_checked": n_fail,
            "exhaustive": False, "distribution": dist, "implementation_wall_s": round(impl_wall, 1),
            "broken_obligations": broken, "static": table_ev, "violation_classes": {"%s|%s" % k: v for k, v in seen.items()},
        },
        "assumptions": ["what analyses do to copies (samplers, GapFiller, worker processes) is unconstrained",
                        "solver warm-start state is outside the observation"],
    }
    return rep.finish(evidence)


def shrink(case, r):
    """try simpler variants of a failing case, keep the first that still fails the same way"""
    def fails(c):
        rr = run_all([c])[0]
        return rr if rr.get("ok") and (rr["diff"] or not rr["repeat_ok"] or rr["before"] != rr["after"]) else None
    cur, cr = case, r
    for change in ({"ctx": False}, {"fault": None}, {"processes": 1}):
        if all(cur.get(k) == v for k, v in change.items()):
            continue
        cand = dict(cur, **change)
        rr = fails(cand)
        if rr is not None and leak_class(cand, rr) == leak_class(cur, cr):
            cur, cr = cand, rr
    if cur["fault"] and cur["fault"][0] > 1:
        for k in range(1, cur["fault"][0]):
            cand = dict(cur, fault=[k, cur["fault"][1]])
            rr = fails(cand)
            if rr is not None and leak_class(cand, rr) == leak_class(cur, cr):
                cur, cr = cand, rr
                break
    return cur, cr


if __name__ == "__main__":
    sys.exit(main())
