"""C03 — leaving a `with model:` block restores the model completely (see harness/core.py)."""
import os
import sys
sys.path.insert(0, os.path.dirname(os.path.abspath(__file__)))
import core  # noqa: E402
import genes  # noqa: E402  (kernel II: gene bookkeeping; contexts at specification level, coq/theories/Genes/Ctx.v)
import ctxmon  # noqa: E402  (specification-level monitor over context-aware operations outside the kernels)
import scenarios  # noqa: E402  (fixed small histories outside the reach of the generators)
import groups  # noqa: E402  (kernel III: groups and identifier changes; contexts at specification level, Groups/Ctx.v)
import extras  # noqa: E402  (kernel IV: user constraints / variables, solver switch, merge; coq/theories/Extras)

if __name__ == "__main__":
    sys.exit(core.main(
        "C03", own_codes=[4, 5],
        gen_params={"quick": 600, "thorough": 15000, "len_quick": 16, "len_thorough": 32,
                    "gen": {"ctx_p": 0.3, "max_depth": 3, "weights": {"Enter": 14, "Exit": 8, "Imul": 7}}},
        rule="random histories over the op kernel of coq/theories/Core/Model.v with 1-3 nested `with model:` blocks "
             "(bounds incl. failing assignments, knock-outs, objective and direction, stoichiometry edits combine/replace, "
             "adding/removing reactions and metabolites, scaling), drawn while executing on the real Model; the full "
             "observation (objects, cross references, raw GLPK problem) at every __enter__ is compared with the one after "
             "the matching __exit__; non-trivial = the history contains an operation other than Enter/Exit/NewRxn; "
             "distinct = distinct op lists",
        manifest_trusted=["undo closures are modelled as data (Core/Model.v `undo`, `run_undo`)",
                          "genes kernel: contexts are modelled at specification level (Exit puts the saved state back); "
                          "the comparison of the real objects at __enter__ and after __exit__ is the Coq function "
                          "`restored` of Genes/Check.v evaluated on the harness's observations",
                          "groups kernel: likewise at specification level (Groups/Ctx.v); `restored` / `groups_restored` of "
                          "Groups/Check.v compare the observations at __enter__ and after __exit__",
                          "extras kernel: likewise at specification level (Extras/Ctx.v); `restored` of Extras/Check.v"],
        extra=[genes.run_ctx, groups.run_ctx, extras.run_ctx, ctxmon.run, scenarios.run_c03],
        extra_targets=genes.EXTRA_TARGETS + groups.EXTRA_TARGETS + extras.EXTRA_TARGETS))
