"""C11 — JSON / YAML / dict / pickle round trips.

Correspondence: generated real cobra models -> model_to_dict / model_from_dict (and malformed
variants of the dict) compared with the Gallina model of io/dict.py (coq/theories/IO/DictModel.v,
tables regenerated from the source); monitor (Coq-defined, IO/DictCheck.v) on the implementation's
own observations before / after one and two trips through every format."""
import copy
import io
import json
import os
import pickle
import random
import shutil
import sys
import tempfile

sys.path.insert(0, os.path.dirname(os.path.abspath(__file__)))
import common as K  # noqa: E402
import io_models as M  # noqa: E402

sys.path.insert(0, os.path.join(K.REPO, "src"))

PROP = "C11"
FORMATS = ["dict", "json_str", "json_file", "json_pretty_handle", "yaml_str", "yaml_file", "pickle", "deepcopy"]
DICT_BASED = set(range(6))
TMP = None

HEADER = """From Coq Require Import ZArith QArith List Bool.
From Cobra.IO Require Import Str JVal DictModel DictCheck.
Import ListNotations.
Open Scope Z_scope."""
CASE_TYPE = "case"

CODES = {12: "loading failed for a saved model with a lower bound above the configured default upper bound",
         1: "Gallina model of io/dict.py and the implementation differ",
         2: "loading failed for a model that was saved",
         3: "round trip changed the model content",
         4: "round trip changed the objective direction",
         5: "round trip changed metabolite compartments / model.compartments",
         6: "round trip changed the raw LP in the solver",
         7: "a second round trip changed the model again",
         8: "second round trip failed to load",
         10: "saving the loaded model again gives a different document",
         11: "model_from_dict changed the dictionary it was given, or a second load of the same dictionary differs",
         9: "optimum differs after the round trip"}


# ------------------------------------------------------------------ implementation side
def trip(fmt, model, sort):
    import cobra.io as cio
    if fmt == "dict":
        return cio.model_from_dict(cio.model_to_dict(model, sort=sort))
    if fmt == "json_str":
        return cio.from_json(cio.to_json(model, sort=sort))
    if fmt == "json_file":
        p = os.path.join(TMP, "m%d.json" % os.getpid())
        cio.save_json_model(model, p, sort=sort)
        return cio.load_json_model(p)
    if fmt == "json_pretty_handle":
        h = io.StringIO()
        cio.save_json_model(model, h, sort=sort, pretty=True)
        h.seek(0)
        return cio.load_json_model(h)
    if fmt == "yaml_str":
        return cio.from_yaml(cio.to_yaml(model, sort=sort))
    if fmt == "yaml_file":
        p = os.path.join(TMP, "m%d.yml" % os.getpid())
        cio.save_yaml_model(model, p, sort=sort)
        return cio.load_yaml_model(p)
    if fmt == "pickle":
        return pickle.loads(pickle.dumps(model))
    if fmt == "deepcopy":
        return copy.deepcopy(model)
    raise ValueError(fmt)


def optimum(model):
    try:
        v = model.slim_optimize(error_value=None)
        return ["opt", v]
    except Exception as e:  # infeasible / unbounded
        return ["status", type(e).__name__]


def mutations(rng, d):
    """Malformed / unusual variants of a saved dict (for the loader's failure behaviour)."""
    out = []

    def cp():
        return copy.deepcopy(d)
    x = cp(); x.pop("reactions"); out.append(("no_reactions", x))
    x = cp(); x.pop(rng.choice(["metabolites", "genes"])); out.append(("no_list", x))
    if d["metabolites"]:
        x = cp(); x["metabolites"].append(copy.deepcopy(x["metabolites"][0])); out.append(("dup_met", x))
        x = cp(); x["metabolites"][0]["id"] = ""; out.append(("empty_met_id", x))
        x = cp(); x["metabolites"][-1]["annotation"] = ["not", "a dict"]; out.append(("annotation_list", x))
        x = cp(); x["metabolites"][0].pop("id"); out.append(("met_without_id", x))
    if d["genes"]:
        x = cp(); x["genes"].append(copy.deepcopy(x["genes"][-1])); out.append(("dup_gene", x))
        x = cp(); x["genes"][0].pop("id"); out.append(("gene_without_id", x))
        x = cp(); x["genes"].pop(rng.randrange(len(x["genes"]))); out.append(("gene_dropped", x))
    if d["reactions"]:
        i = rng.randrange(len(d["reactions"]))
        x = cp(); x["reactions"].append(copy.deepcopy(x["reactions"][i])); out.append(("dup_rxn", x))
        x = cp(); x["reactions"][i]["metabolites"]["no such metabolite"] = 1.0; out.append(("unknown_met", x))
        x = cp(); x["reactions"][i]["lower_bound"], x["reactions"][i]["upper_bound"] = 7.0, 3.0
        out.append(("lb_gt_ub", x))
        x = cp(); r = x["reactions"][i]; ub = r.pop("upper_bound"); r["upper_bound"] = ub   # order: ub last anyway
        lb = r.pop("lower_bound"); r["lower_bound"] = lb
        out.append(("ub_before_lb", x))
        x = cp(); x["reactions"][i].pop("lower_bound"); out.append(("no_lb", x))
        x = cp(); x["reactions"][i].pop("upper_bound"); out.append(("no_ub", x))
        x = cp(); x["reactions"][i]["lower_bound"] = None; out.append(("lb_none", x))
        x = cp(); x["reactions"][i]["objective_coefficient"] = 4.0; out.append(("objective_added", x))
        x = cp(); x["reactions"][i]["reversibility"] = True; x["reactions"][i]["reaction"] = "a --> b"
        x["reactions"][i]["extra"] = 1; out.append(("ignored_keys", x))
        if d["reactions"][i]["metabolites"]:
            x = cp(); k0 = sorted(x["reactions"][i]["metabolites"])[0]; x["reactions"][i]["metabolites"][k0] = 0.0
            out.append(("zero_coefficient", x))
        x = cp(); x["reactions"][i]["annotation"] = "text"; out.append(("rxn_annotation_str", x))
    x = cp(); x["id"] = 5; out.append(("model_id_int", x))
    x = cp(); x["annotation"] = []; out.append(("model_annotation_list", x))
    x = cp(); x["version"] = "1"; x["unknown"] = {"a": 1}; out.append(("extra_model_keys", x))
    rng.shuffle(out)
    return out[:4]


def load_result(d, own_copy=True):
    import cobra.io as cio
    try:
        m = cio.model_from_dict(copy.deepcopy(d) if own_copy else d)
    except Exception as e:
        return {"err": type(e).__name__, "msg": str(e)[:200]}
    o = M.observe(m)
    why = M.representable(o)
    if why:
        return {"skip": why}
    return {"ok": o}


def run_impl(spec, rng_seed):
    """Everything the implementation does for one case (JSON-able)."""
    import cobra.io as cio
    rng = random.Random(rng_seed)
    with M.use_cfg(spec["cfg"]):
        model = M.build(spec)
        obs0 = M.observe(model)
        out = {"obs0": obs0, "skip": M.representable(obs0)}
        opt0 = optimum(model)
        try:
            d = cio.model_to_dict(model, sort=spec["sort"])
            out["dict"] = {"ok": M.jv(d)}
        except Exception as e:
            d = None
            out["dict"] = {"err": type(e).__name__}
        loads = []
        if d is not None:
            d_before = M.jv(d)
            first = load_result(d)
            loads.append(("pristine", d_before, first))
            # loading must not consume its argument: the same saved dictionary loads again to the same model
            d_shared = copy.deepcopy(d)
            load_result(d_shared, own_copy=False)
            again = load_result(d_shared, own_copy=False)
            if M.jv(d_shared) != d_before:
                out["reload"] = "model_from_dict changed the dictionary it was given"
            elif again != first:
                out["reload"] = "loading the same dictionary a second time gives a different model"

            for name, x in mutations(rng, d):
                loads.append((name, M.jv(x), load_result(x)))
        out["loads"] = loads
        trips = []
        for tag, fmt in enumerate(FORMATS):
            try:
                m1 = trip(fmt, model, spec["sort"])
            except Exception as e:
                trips.append((tag, {"err": type(e).__name__, "msg": str(e)[:200]}, {"err": "NotRun"}, None))
                continue
            o1 = M.observe(m1)
            opt1 = optimum(m1)
            # "saving the loaded model again gives the same document" (dict-based formats; python-side, code 10)
            doc_diff = None
            if d is not None and tag in DICT_BASED:
                try:
                    d1 = cio.model_to_dict(m1, sort=spec["sort"])
                    if M.jv(d1) != M.jv(d):
                        doc_diff = sorted(str(k) for k in set(d) | set(d1)
                                          if (k in d) != (k in d1) or M.jv(d.get(k)) != M.jv(d1.get(k))) or ["<order>"]
                except Exception as e:  # noqa
                    doc_diff = ["<raised %s>" % type(e).__name__]
            if doc_diff:
                out.setdefault("doc_diffs", []).append((tag, doc_diff))
            try:
                m2 = trip(fmt, m1, spec["sort"])
                r2 = {"ok": M.observe(m2)}
            except Exception as e:
                r2 = {"err": type(e).__name__, "msg": str(e)[:200]}
            same_lp = o1["lp"] == obs0["lp"] and o1["lp_direction"] == obs0["lp_direction"]
            # objective coefficients below the solver's dual tolerance: the simplex stops wherever the reduced costs are
            # "zero", the value it reports depends on the starting basis and is no function of the LP -- not compared
            tiny = any(0 < abs(r.objective_coefficient) < 1e-6 for r in model.reactions)
            opt_bad = same_lp and not tiny and not same_opt(opt0, opt1)
            trips.append((tag, {"ok": o1}, r2, opt_bad))
        out["trips"] = trips
        after = M.observe(model)
        out["source_changed"] = after != obs0
    return out


def _run_one(a):
    return run_impl(*a)


def run_all(specs, seeds):
    """run_impl on every case, in a small pool of forked workers (each case is independent)."""
    import cobra  # noqa: F401  (import before forking)
    args = list(zip(specs, seeds))
    if len(args) < 8 or K.JOBS < 2:
        return [run_impl(*a) for a in args]
    # forked children, a few in flight: a worker pool would hang when GLPK aborts a worker (bflib/sgf.c)
    outs = []
    for kind, val in K.map_isolated(_run_one, args, chunk=4):
        outs.append(val if kind == "ok" else
                    {"skip": "process aborted by the solver library or timed out: %s" % val, "obs0": None,
                     "dict": {"err": "aborted"}, "loads": [], "trips": [], "aborted": True})
    return outs


def same_opt(a, b):
    if a[0] != b[0]:
        return False
    if a[0] == "status":
        return a[1] == b[1]
    if a[1] is None or b[1] is None:
        return a[1] == b[1]
    return abs(a[1] - b[1]) <= 1e-6 * max(1.0, abs(a[1]))


# ------------------------------------------------------------------ Coq terms
def c_obs_result(r, D):
    if "ok" in r:
        why = M.representable(r["ok"])
        if why:
            return None
        return "(Ok (%s, %s))" % (D.ref("m", "amodel", M.c_model(r["ok"])), D.ref("l", "jval", M.c_jv(r["ok"]["lp"])))
    return M.c_err(r["err"])


def case_term(spec, out, D):
    cfg = "(mkCfg %s %s)" % (M.c_q(M.num(spec["cfg"][0])), M.c_q(M.num(spec["cfg"][1])))
    o0 = out["obs0"]
    obs0 = "(%s, %s)" % (D.ref("m", "amodel", M.c_model(o0)), D.ref("l", "jval", M.c_jv(o0["lp"])))
    d = out["dict"]
    dterm = "(Ok %s)" % D.ref("d", "jval", M.c_jv(d["ok"])) if "ok" in d else M.c_err(d["err"])
    loads = []
    for name, dj, r in out["loads"]:
        if "skip" in r:
            continue
        rt = "(Ok %s)" % D.ref("m", "amodel", M.c_model(r["ok"])) if "ok" in r else M.c_err(r["err"])
        loads.append("(%s, %s)" % (D.ref("d", "jval", M.c_jv(dj)), rt))
    trips = []
    for tag, r1, r2, _ in out["trips"]:
        t1, t2 = c_obs_result(r1, D), c_obs_result(r2, D)
        if t1 is None or t2 is None:
            continue
        trips.append("(%d, %s, %s)" % (tag, t1, t2))
    return "(mkCase %s %s %s %s [%s] [%s])" % (cfg, "true" if spec["sort"] else "false", obs0, dterm,
                                              "; ".join(loads), "; ".join(trips))


def evaluate(specs, seeds):
    """Run implementation and model on the cases.  Returns (per-case list of (step, code), faults, outs)."""
    outs, terms, idx = [], [], []
    D = M.Defs()
    for i, o in enumerate(run_all(specs, seeds)):
        outs.append(o)
        s = specs[i]
        if o["skip"] is None:
            idx.append(i)
            terms.append((case_term(s, o, D), D))
    res, faults = M.eval_cases(K, HEADER, terms, CASE_TYPE, "failing", shard=max(8, min(40, len(terms) // K.JOBS + 1)))
    codes = {i: [] for i in range(len(specs))}
    for j, lst in res:
        codes[idx[j]] = [tuple(x) for x in lst]
    for i, o in enumerate(outs):       # python-side additions: optimum, source model untouched
        for tag, r1, r2, opt_bad in o.get("trips", []):
            if opt_bad:
                codes[i].append((100 + tag, 9))
        if o.get("source_changed"):
            codes[i].append((1, 3))
        for tag, diff in o.get("doc_diffs", []):
            codes[i].append((100 + tag, 10))
        if o.get("reload"):
            codes[i].append((10, 11))
    return codes, faults, outs


# ------------------------------------------------------------------ shrinking and signatures
def shrink_candidates(spec):
    c = []
    for i in range(len(spec["rxns"])):
        x = copy.deepcopy(spec); del x["rxns"][i]; c.append(x)
    used = {k for r in spec["rxns"] for k, _ in r["stoich"]}
    for i, m in enumerate(spec["mets"]):
        if m["id"] not in used and len(spec["mets"]) > 1:
            x = copy.deepcopy(spec); del x["mets"][i]; c.append(x)
    for i, g in enumerate(spec["genes"]):
        if not any(g["id"] in r["rule"] for r in spec["rxns"]):
            x = copy.deepcopy(spec); del x["genes"][i]; c.append(x)
    for i, r in enumerate(spec["rxns"]):
        for k, v in [("rule", ""), ("notes", {}), ("annotation", {}), ("name", ""), ("subsystem", ""),
                     ("objective", 0), ("bounds", [0.0, spec["cfg"][1]])]:
            if r[k] != v:
                x = copy.deepcopy(spec); x["rxns"][i][k] = v; c.append(x)
        if len(r["stoich"]) > 1:
            x = copy.deepcopy(spec); x["rxns"][i]["stoich"] = r["stoich"][:1]; c.append(x)
    for i, m in enumerate(spec["mets"]):
        for k, v in [("notes", {}), ("annotation", {}), ("name", ""), ("charge", None), ("formula", None),
                     ("_bound", 0), ("compartment", "c")]:
            if m[k] != v:
                x = copy.deepcopy(spec); x["mets"][i][k] = v; c.append(x)
    for i, g in enumerate(spec["genes"]):
        for k, v in [("notes", {}), ("annotation", {}), ("name", "")]:
            if g[k] != v:
                x = copy.deepcopy(spec); x["genes"][i][k] = v; c.append(x)
    for k, v in [("notes", {}), ("annotation", {}), ("name", None), ("id", "m"), ("compartments", {}),
                 ("direction", "max"), ("sort", False), ("cfg", [-1000.0, 1000.0])]:
        if spec[k] != v:
            x = copy.deepcopy(spec); x[k] = v; c.append(x)
    return c


def code_key(step, code):
    """what a failing (step, code) means, independent of the concrete format"""
    if step >= 100:
        tag = step % 100
        return (code, "dict-based" if tag in DICT_BASED else "pickle")
    return (code, "load" if step >= 10 else "to_dict")


def shrink(spec, seed, want):
    import time
    cur = spec
    t0 = time.time()
    for _ in range(8):
        if time.time() - t0 > 40:
            break
        cands = shrink_candidates(cur)
        if not cands:
            break
        codes, faults, _ = evaluate(cands, [seed] * len(cands))
        if faults:
            break
        ok = [i for i in range(len(cands)) if any(code_key(s, c) == want for s, c in codes[i])]
        if not ok:
            break
        cur = cands[ok[0]]
        # take several independent reductions per round when possible
    return cur


def main(argv=None):
    global TMP
    args = K.parse_args(argv)
    rep = K.Reporter(PROP, args.tier, args.seed)
    info, broken = K.standard_prelude(PROP, rep, extra_targets=["theories/IO/DictCheck.vo"])
    rng = random.Random(args.seed)
    TMP = tempfile.mkdtemp(prefix="verif_c11_")
    try:
        return run(args, rep, info, broken, rng)
    finally:
        shutil.rmtree(TMP, ignore_errors=True)


def run(args, rep, info, broken, rng):
    specs, seeds = [], []
    n_corpus = 0
    if args.replay:
        rp = json.load(open(args.replay))
        specs.append(rp["case"]); seeds.append(rp.get("case_seed", 0))
    else:
        corpus = os.path.join(K.VERIF, "corpus", PROP)
        if os.path.isdir(corpus):
            for f in sorted(os.listdir(corpus)):
                c = json.load(open(os.path.join(corpus, f)))
                specs.append(c["case"]); seeds.append(c.get("case_seed", 0))
        n_corpus = len(specs)
        n = 260 if args.tier == "quick" else 6000
        for _ in range(n):
            specs.append(M.gen_model(rng)); seeds.append(rng.randrange(1 << 30))

    codes, faults, outs = evaluate(specs, seeds)
    if faults:
        print("HARNESS FAULT: model evaluation failed:\n" + "\n".join(faults[:3]))
        if not broken:
            broken.append("model evaluation (coqc on generated cases) failed: " + faults[0][-600:])

    # statistics
    dist = {"sort": 0, "direction_min": 0, "lb_above_default_ub": 0, "compartment_none": 0, "nondefault_cfg": 0,
            "inf_bounds": 0, "with_rules": 0, "skipped_not_representable": 0, "load_errors": {}, "mutations": {},
            "unmodelled_loads": 0, "trip_errors": {}}
    n_loads = n_trips = 0
    for s, o, in zip(specs, outs):
        dist["sort"] += s["sort"]
        dist["direction_min"] += s["direction"] == "min"
        dist["lb_above_default_ub"] += any(r["bounds"][0] > s["cfg"][1] for r in s["rxns"])
        dist["compartment_none"] += any(m["compartment"] is None for m in s["mets"])
        dist["nondefault_cfg"] += s["cfg"] != [-1000.0, 1000.0]
        dist["inf_bounds"] += any(abs(b) == float("inf") for r in s["rxns"] for b in r["bounds"])
        dist["with_rules"] += any(r["rule"] for r in s["rxns"])
        dist["skipped_not_representable"] += o["skip"] is not None
        for name, _, r in o["loads"]:
            n_loads += 1
            dist["mutations"][name] = dist["mutations"].get(name, 0) + 1
            if "err" in r:
                dist["load_errors"][r["err"]] = dist["load_errors"].get(r["err"], 0) + 1
        for tag, r1, r2, _ in o["trips"]:
            n_trips += 1
            if "err" in r1:
                dist["trip_errors"][r1["err"]] = dist["trip_errors"].get(r1["err"], 0) + 1
    for i in codes:
        dist["unmodelled_loads"] += sum(1 for s, c in codes[i] if c == 99)

    # decide
    seen = {}
    n_fail = 0
    for i in sorted(codes):
        real = [(s, c) for s, c in codes[i] if c != 99]
        if not real:
            continue
        n_fail += 1
        for s, c in real:
            key = code_key(s, c)
            seen.setdefault(key, []).append(i)
    for key in sorted(seen)[:5]:
        for idxs in [seen[key]]:
            i = idxs[0]
            small = specs[i] if args.replay else shrink(specs[i], seeds[i], key)
            c2, _, o2 = evaluate([small], [seeds[i]])
            steps = [(s, c) for s, c in c2[0] if code_key(s, c) == key] or [(s, c) for s, c in codes[i] if code_key(s, c) == key]
            sig = {"code": key[0], "format_class": key[1]}
            if key[0] == 10:
                sig["compartment_none"] = any(m["compartment"] is None for m in small["mets"])
                sig["differs_in"] = sorted({k for _, diff in o2[0].get("doc_diffs", []) for k in diff})
            fm = sorted({FORMATS[s % 100] for s, c in steps if s >= 100})
            errs = sorted({(FORMATS[t], r1.get("err"), r1.get("msg")) for t, r1, r2, _ in o2[0]["trips"] if "err" in r1})
            replay = {"case": small, "case_seed": seeds[i], "failed": CODES.get(key[0], str(key[0])),
                      "failing_steps": steps, "formats": fm, "exceptions": errs, "n_cases_of_this_kind": len(idxs),
                      "how_to_read": "case = model spec (harness/io_models.py: build); cfg = Configuration().bounds; "
                                     "step 1 = model_to_dict, 10+i = i-th model_from_dict, 100+t/200+t = first/second "
                                     "trip through format t of " + ",".join(FORMATS),
                      "theorem": "C11_dict_roundtrip_general / _partial / _public / _resave, C11_resave_same_document, C11_load_total_iff / _partial / _at_once / _current, C11_dict_idempotent / _partial, C11_rt_idempotent_iff, C11_public_comps_fixpoint (coq/theories/Properties/C11.v)",
                      "observation_before": {k: v for k, v in o2[0]["obs0"].items() if k != "lp"}}
            rep.violation(sig, replay)

    if broken and rep.violations == 0:
        rep.violation({"broken": True}, {"broken_obligations": broken,
                      "note": "proof obligation or correspondence machinery no longer checks; no failing input found"},
                      no_input=True)

    nontrivial = {json.dumps(s, sort_keys=True) for s in specs if s["rxns"]}
    evidence = {
        "level": "proof",
        "coverage": {
            "obligations": info["obligations"], "discharged": info["discharged"], "checker_cmd": info["checker_cmd"],
            "trusted_base": K.TRUSTED_COMMON + [
                "json, ruamel.yaml, pickle/copy byte formats and optlang's own pickling are exercised, not modelled",
                "GPR.from_string/to_string are a parameter of the model (C08); the check instantiates them with the "
                "identity / a tokenizer and compares rule texts and gene sets with the implementation",
                "swiglpk read-back of the GLPK problem held by model.solver"],
            "axioms_reported_by_Print_Assumptions": info["axioms"],
            "evaluations": len(specs), "distinct_nontrivial": len(nontrivial),
            "rule": "one case = one generated model: model_to_dict compared with the Gallina to_dict, model_from_dict "
                    "of the saved dict and of up to 4 malformed variants compared with the Gallina from_dict, and %d "
                    "formats x (one trip, two trips) monitored; non-trivial = has at least one reaction" % len(FORMATS),
            "samples": [specs[i] for i in ([n_corpus, len(specs) // 2, len(specs) - 1] if len(specs) > n_corpus else [])][:3],
            "traces_validated_against_impl": len(specs) - n_fail,
            "disagreements_checked": n_fail,
            "loads_compared": n_loads, "trips_monitored": n_trips,
            "exhaustive": False,
            "input_distribution": dist, "formats": FORMATS,
            "broken_obligations": broken,
        },
        "assumptions": ["text codecs (json, ruamel.yaml) and pickle are trusted and only exercised",
                        "gene rule parsing/printing is C08's model; here rule text and gene sets are compared",
                        "numbers are dyadic rationals so float/decimal text conversion is exact"],
    }
    return rep.finish(evidence)


if __name__ == "__main__":
    sys.exit(main())
