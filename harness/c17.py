"""C17 — loopless methods remove cycles without changing what matters.

Implementation side: cobra.flux_analysis.loopless.loopless_solution (fluxes=None, fluxes=<FBA optimum>,
<pFBA solution>, <exact vertices with loops>, <sub-optimal vertices>, <vectors that are not flux
distributions>) and add_loopless + slim_optimize/optimize (GLPK MIP).
Model side (coq/theories/Loopless): the cycle-free LP built in Gallina from model + starting vector
(`cf_lp PinEq`, i.e. the REPAIRED objective pin, fixes/loopless-objective-pin.patch), whose exact optimum
is found by harness/lpexact.py and certified by the proved checkers of LP/Cert.v, the ValueError model
(`cf_raises`), and the property monitor of Loopless/Check.v; for add_loopless the sign-pattern enumeration
(`loopless_optimum`, all 3^n patterns generated inside Coq, every certificate re-checked).

The driver is harness/lpcheck.py adapted: candidates of a shrinking round are evaluated in ONE coqc call.
"""
import copy
import itertools
import json
import math
import os
import random
import sys
import time
import warnings
from fractions import Fraction as F

sys.path.insert(0, os.path.dirname(os.path.abspath(__file__)))
import common as K  # noqa: E402
import gennet  # noqa: E402
import lpexact  # noqa: E402

sys.path.insert(0, os.path.join(K.REPO, "src"))

PROP = "C17"
EXTRA_TARGETS = ["theories/Loopless/Check.vo"]
HEADER = """From Coq Require Import QArith List Bool ZArith.
From Cobra.LP Require Import Defs Fba.
From Cobra.Loopless Require Import Model Check.
Import ListNotations.
Open Scope Q_scope."""
CASE_TYPE = "c17case"
CODES = {1: "loopless_solution: ValueError raised / not raised differently from the model of _add_cycle_free "
            "(Reaction._check_bounds on the new bounds)",
         2: "returned fluxes violate steady state or an original flux bound beyond tolerance",
         3: "a boundary flux differs from the starting vector",
         4: "a reaction reversed direction or grew in magnitude",
         5: "objective value differs from the objective of the starting vector (reported value, or value at the "
            "returned fluxes, or the starting solution's own value)",
         6: "total internal flux is above the certified minimum: a removable internal cycle remains",
         7: "solution status contradicts the certified verdict of the cycle-free problem (e.g. 'infeasible' for a "
            "starting vector that is a flux distribution of the model)",
         8: "add_loopless: the null-space matrix N it used does not annihilate S_int / has the wrong rank",
         9: "exact oracle certificate rejected (harness fault)",
         10: "add_loopless: optimum differs from the largest objective over all loop-free flux distributions "
             "(exact sign-pattern enumeration)",
         11: "add_loopless: the reported optimal solution contains an internal cycle"}
THEOREMS = ("C17_cycle_free_lp_props, C17_same_objective, C17_start_feasible, C17_cycle_free_minimal, "
            "C17_add_loopless_sound, C17_add_loopless_partial (coq/theories/Properties/C17.v)")
RULE = ("random stoichiometric networks (gennet.gen_network, finite bounds) with an extra internal cycle of length 2-4 "
        "in a random reversibility pattern (forward-only, reversible, written backwards), objective on a boundary "
        "reaction or on a cycle/internal reaction, max or min; x method: loopless_solution with starting vector "
        "none | own FBA optimum | pFBA | exact optimal vertex with loops | exact sub-optimal vertex | perturbed vector, "
        "or add_loopless (<= 4 internal reactions quick, <= 5 thorough; a third with a one-directional cycle driven by the objective). non-trivial = the FBA problem is feasible and "
        "the case ran on both sides; distinct = distinct (network, method, start)")
TRUSTED = ["GLPK (LP and MIP) / optlang are validated per instance against certificate-checked exact optima, not proved",
           "harness/lpexact.py only searches for certificates; coq/theories/LP/Cert.v decides them",
           "numpy's SVD null space: the implementation's N is checked numerically (exact Gauss over Q on the float "
           "entries: N S_int^T within 1e-9, rank = n_int - rank S_int); the theorem add_loopless_sound assumes spanning",
           "floating point: values compared within 1e-6*max(1,|x|) (DESIGN 2.3); sign patterns by the envelope rule "
           "(|v| > 1e-5 non-zero, |v| < 1e-7 zero, otherwise skipped and counted)"]
ASSUMPTIONS = ["GLPK's simplex and branch-and-bound are not verified: their answers are validated on every explored instance",
               "completeness of add_loopless (optimum = largest loop-free objective) is validated by enumeration, not proved",
               "the spanning property of the null-space matrix is a hypothesis of add_loopless_sound, checked per instance"]
SHARD = 12

TOL = F(1, 10 ** 6)


# ---------------------------------------------------------------------------------- generators
def is_boundary(r):
    return sum(1 for v in r["st"].values() if F(v) != 0) == 1


def internal_idx(net):
    return [i for i, r in enumerate(net["rxns"]) if not is_boundary(r)]


def add_cycle(rng, net, force=None):
    """force = 'pos' / 'neg': a cycle that can run with all fluxes positive / all negative (targeted add_loopless
    cases: the direction-specific halves of the big-M constraints)."""
    mets = net["mets"]
    L = rng.choice([2, 2, 3, 3, 4])
    L = min(L, len(mets))
    if L < 2:
        return
    ms = rng.sample(mets, L)
    if force:
        for k in range(L):
            a, b = ms[k], ms[(k + 1) % L]
            U = lambda: rng.choice([F(1), F(5), F(10), F(1000)])  # noqa
            if force == "pos":
                st, lb, ub = {a: F(-1), b: F(1)}, rng.choice([F(0), -U()]), U()
            else:
                st, lb, ub = {a: F(1), b: F(-1)}, -U(), rng.choice([F(0), U()])
            net["rxns"].append({"id": "C%d" % len(net["rxns"]), "st": {m: str(c) for m, c in st.items()},
                                "lb": str(lb), "ub": str(ub), "obj": "0", "gpr": ""})
        return
    if rng.random() < 0.2:
        # a cycle through lumped one-sided reactions (two metabolites on the same side): internal reactions all the same
        a, b = ms[0], ms[1]
        U = lambda: rng.choice([F(1), F(5), F(10), F(1000), F(1000)])  # noqa
        for st in ({a: F(1), b: F(1)}, {a: F(-1), b: F(-1)}):
            pat = rng.choice(["fwd", "rev", "rev"])
            lb, ub = (F(0), U()) if pat == "fwd" else (-U(), U())
            net["rxns"].append({"id": "C%d" % len(net["rxns"]), "st": {m: str(c) for m, c in st.items()},
                                "lb": str(lb), "ub": str(ub), "obj": "0", "gpr": ""})
        return
    parallel = L == 2 and rng.random() < 0.4     # two parallel copies a -> b, one of which must run backwards
    for k in range(L):
        a, b = ms[k], ms[(k + 1) % L]
        if parallel and k == 1:
            a, b = b, a
        U = lambda: rng.choice([F(1), F(5), F(10), F(1000), F(1000)])  # noqa
        pat = rng.choice(["fwd", "rev", "back", "rev"] if not (parallel and k == 1) else ["rev", "back", "rev"])
        if pat == "fwd":
            st, lb, ub = {a: F(-1), b: F(1)}, F(0), U()
        elif pat == "rev":
            st, lb, ub = ({a: F(-1), b: F(1)} if rng.random() < 0.5 else {a: F(1), b: F(-1)}), -U(), U()
        else:                                       # written backwards, runs with negative flux
            st, lb, ub = {a: F(1), b: F(-1)}, -U(), F(0)
        net["rxns"].append({"id": "C%d" % len(net["rxns"]), "st": {m: str(c) for m, c in st.items()},
                            "lb": str(lb), "ub": str(ub), "obj": "0", "gpr": ""})


def gen_net(rng, max_int, min_int=2, force=None):
    for _ in range(400):
        net = gennet.gen_network(rng, finite_only=True, genes=False, max_mets=4,
                                 max_rxns=rng.randrange(3, 7) if not force else rng.randrange(2, 4), forced_p=0.06)
        if force or rng.random() < 0.85:
            add_cycle(rng, net, force)
        for r in net["rxns"]:
            r["obj"] = "0"
        if force:                                   # objective drives the cycle in its direction
            if len(internal_idx(net)) > max_int or net["rxns"][-1]["id"][0] != "C":
                continue
            drive = rng.choice([("1", "max"), ("-1", "min")] if force == "pos" else [("1", "min"), ("-1", "max")])
            net["rxns"][-1]["obj"], net["dir"] = drive
            if lpexact.certified(gennet.net_lp(net))[0] != "optimal":
                continue
            return net
        ints = internal_idx(net)
        bnd = [i for i in range(len(net["rxns"])) if i not in ints]
        if not (min_int <= len(ints) <= max_int) or not bnd:
            continue
        touch = rng.random() < 0.5                  # objective on an internal (often cycle) reaction
        pool = ints if touch else bnd
        for i in rng.sample(pool, 1 if rng.random() < 0.8 else min(2, len(pool))):
            net["rxns"][i]["obj"] = str(rng.choice([F(1), F(1), F(-1), F(2)]))
        net["dir"] = "max" if rng.random() < 0.6 else "min"
        if lpexact.certified(gennet.net_lp(net))[0] != "optimal":
            continue
        return net
    raise RuntimeError("generator failed")


LS_MODES = ["none", "none", "fba", "pfba", "loopy", "loopy", "subopt", "subopt", "perturbed"]


def gen_cases(rng, tier):
    n_ls, n_al = (110, 40) if tier == "quick" else (900, 150)
    max_al = 4 if tier == "quick" else 5
    cases = []
    for k in range(n_ls):
        net = gen_net(rng, 8)
        cases.append({"kind": "ls", "net": net, "mode": LS_MODES[k % len(LS_MODES)], "pick": rng.randrange(10 ** 6)})
    for k in range(n_al):
        force = {0: "pos", 1: "neg"}.get(k % 6)      # a third of the cases: objective drives a one-directional cycle
        net = gen_net(rng, max_al if k % 3 else min(max_al, 3), min_int=1, force=force)
        if k % 4 == 2:
            # the largest bound magnitude of the model is a LOWER bound (reactions written the other way round)
            for r in net["rxns"]:
                lo, hi = gennet.num(r["lb"]), gennet.num(r["ub"])
                if hi is not None and hi > 10:
                    r["ub"] = "10" if (lo is None or lo <= 10) else str(lo)
                if lo is not None and lo < 0:
                    r["lb"] = "-1000"
        cases.append({"kind": "al", "net": net})
    return cases


# ---------------------------------------------------------------------------------- exact helpers
def q(v):
    return gennet.q(v)


def vec(xs):
    return "[" + "; ".join(q(x) for x in xs) + "]"


def qf(x):
    if x is None or (isinstance(x, float) and (math.isnan(x) or math.isinf(x))):
        return None
    return F(float(x))


def dyadic(x, maxexp=30):
    d = F(x).denominator
    return d & (d - 1) == 0 and d <= 2 ** maxexp and abs(F(x)) < 2 ** 40


def coefs(net):
    return [F(r["obj"]) for r in net["rxns"]]


def cf_bounds(net, w):
    """Python replica of Model.cf_rxn (for the exact LP search only; Coq rebuilds the LP itself)."""
    out = []
    for r, wi in zip(net["rxns"], w):
        lb, ub = gennet.num(r["lb"]), gennet.num(r["ub"])
        if is_boundary(r):
            out.append((wi, wi, F(0)))
        elif wi >= 0:
            out.append((max(F(0), lb) if lb is not None else F(0), min(wi, ub) if ub is not None else wi, F(1)))
        else:
            out.append((max(wi, lb) if lb is not None else wi, min(F(0), ub) if ub is not None else F(0), F(-1)))
    return out


def spec_lp(net, w):
    base = gennet.net_lp(net)
    cb = cf_bounds(net, w)
    c = coefs(net)
    cw = sum(a * b for a, b in zip(c, w))
    return {"vb": [(lo, hi) for lo, hi, _ in cb], "rows": base["rows"] + [(c, cw, cw)],
            "obj": [-s for _, _, s in cb]}


def certify(lp):
    if any(lo is not None and hi is not None and lo > hi for lo, hi in lp["vb"]):
        return ("box",)
    return lpexact.certified(lp)


def cert_term(o):
    if o[0] == "box":
        return "CBox"
    if o[0] == "optimal":
        return "(COpt %s %s)" % (vec(o[1]), vec(o[2]))
    if o[0] == "infeasible":
        return "(CInf %s)" % vec(o[1])
    return "(CInf [])"


def exact_vertex(net, obj, pin=None):
    lp = gennet.net_lp(net)
    if pin is not None:
        lp = dict(lp)
        lp["rows"] = lp["rows"] + [(coefs(net), pin, pin)]
    o = lpexact.maximize(lp, obj)
    return o[1] if o[0] == "optimal" else None


def start_vector(net, mode, pick):
    """Exact starting vectors (modes loopy / subopt / perturbed); None when no dyadic one was found."""
    rng = random.Random(pick)
    n = len(net["rxns"])
    ints = internal_idx(net)
    o = lpexact.certified(gennet.net_lp(net))
    if o[0] != "optimal":
        return None
    c = coefs(net)
    opt = sum(a * b for a, b in zip(c, o[1]))
    rnd = [F(0)] * n
    for i in (ints if mode != "subopt" else range(n)):
        rnd[i] = F(rng.choice([-2, -1, -1, 1, 1, 2]))
    if mode in ("loopy", "perturbed"):
        w = exact_vertex(net, rnd, pin=opt)
    else:
        a = exact_vertex(net, rnd)
        b = exact_vertex(net, [-x for x in rnd], pin=opt)
        if a is None or b is None:
            return None
        w = a if rng.random() < 0.5 else [(x + y) / 2 for x, y in zip(a, b)]
    if w is None or not all(dyadic(x) for x in w):
        return None
    if mode == "perturbed":
        w = list(w)
        cand = [i for i in ints if w[i] != 0] or ints
        i = rng.choice(cand)
        w[i] = rng.choice([w[i] / 2, F(0), -w[i], w[i] + 1])
    PRIME[pick] = (rnd, opt) if mode == "loopy" else None
    return w


PRIME = {}


def prime_solver(m, net, rnd, opt):
    """Leave GLPK's basis at the loopy vertex (as after any earlier analysis of the user): optimise the objective that
    produced the vertex, with the model objective pinned, inside a context.  Legitimate prior solver state; it makes
    the result of a cycle-free problem whose objective was lost (zero objective) visibly loopy."""
    with m:
        prob = m.problem
        pin = prob.Constraint(m.objective.expression, lb=float(opt), ub=float(opt), name="verif_prime_pin")
        m.add_cons_vars([pin])
        m.objective = prob.Objective(
            sum(float(c) * m.reactions.get_by_id(r["id"]).flux_expression for c, r in zip(rnd, net["rxns"]) if c != 0),
            direction="max")
        m.optimize()


def nullspace_exact(rows, n):
    """Reduced row echelon form over Q -> (rank, basis of the null space as rows)."""
    A = [list(r) for r in rows]
    piv = []
    r = 0
    for c in range(n):
        p = next((i for i in range(r, len(A)) if A[i][c] != 0), None)
        if p is None:
            continue
        A[r], A[p] = A[p], A[r]
        pv = A[r][c]
        A[r] = [x / pv for x in A[r]]
        for i in range(len(A)):
            if i != r and A[i][c] != 0:
                f = A[i][c]
                A[i] = [x - f * y for x, y in zip(A[i], A[r])]
        piv.append(c)
        r += 1
    basis = []
    for fc in [c for c in range(n) if c not in piv]:
        v = [F(0)] * n
        v[fc] = F(1)
        for i, pc in enumerate(piv):
            v[pc] = -A[i][fc]
        basis.append(v)
    return r, basis


def s_int_rows(net):
    ints = internal_idx(net)
    return [[F(net["rxns"][j]["st"].get(m, 0)) for j in ints] for m in net["mets"]]


def all_patterns(n):
    if n == 0:
        return [[]]
    return [[s] + p for p in all_patterns(n - 1) for s in (-1, 0, 1)]


SG = {-1: "SN", 0: "SZ", 1: "SP"}


def acyc_entry(S, pat):
    """('acyclic', y) or ('cyclic', z) for a sign pattern, by the exact LP test."""
    vb = [{1: (F(0), F(1)), -1: (F(-1), F(0)), 0: (F(0), F(0))}[s] for s in pat]
    lp = {"vb": vb, "rows": [(row, F(0), F(0)) for row in S], "obj": [F(s) for s in pat]}
    o = lpexact.certified(lp)
    if o[0] != "optimal":
        return ("unknown", None)
    val = sum(a * b for a, b in zip(lp["obj"], o[1]))
    return ("acyclic", o[2]) if val == 0 else ("cyclic", o[1])


def region_lp(net, pat):
    lp = gennet.net_lp(net)
    vb = list(lp["vb"])
    for s, i in zip(pat, internal_idx(net)):
        lo, hi = vb[i]
        if s >= 0:
            lo = F(0) if lo is None else max(F(0), lo)
        if s <= 0:
            hi = F(0) if hi is None else min(F(0), hi)
        vb[i] = (lo, hi)
    lp = dict(lp)
    lp["vb"] = vb
    return lp


def entry_term(kind, data, res=None):
    if kind == "cyclic":
        return "(PCyclic %s)" % vec(data)
    if kind == "acyclic":
        return "(PAcyclic %s %s)" % (vec(data), cert_term(res) if res is not None else "(CInf [])")
    return "(PCyclic [])"          # rejected by Coq -> code 9


# ---------------------------------------------------------------------------------- running the implementation
def run_ls(case):
    from cobra.flux_analysis import pfba
    from cobra.flux_analysis.loopless import loopless_solution
    net, mode = case["net"], case["mode"]
    m = gennet.to_cobra(net, "glpk")
    ids = [r["id"] for r in net["rxns"]]
    obs, stats = {"mode": mode}, {"method": "loopless_solution", "mode": mode, "dir": net["dir"]}
    rec = []
    orig = m.optimize

    def recording(*a, **k):
        s = orig(*a, **k)
        rec.append((s.status, s.objective_value, s.fluxes.copy()))
        return s
    fluxes, synthetic, wq = None, False, None
    with warnings.catch_warnings():
        warnings.simplefilter("ignore")
        if mode == "fba":
            fluxes = m.optimize().fluxes
        elif mode == "pfba":
            fluxes = pfba(m).fluxes
        elif mode in ("loopy", "subopt", "perturbed"):
            wq = start_vector(net, mode, case["pick"])
            if wq is None:
                return None, {"skipped": True, "obs": {"why": "no exactly representable starting vector"}, "stats": stats}
            fluxes = {i: float(x) for i, x in zip(ids, wq)}
            synthetic = True
            if PRIME.get(case["pick"]) and case["pick"] % 2 == 0:
                prime_solver(m, net, *PRIME[case["pick"]])
                stats["primed"] = True
        m.optimize = recording
        raised, sol = False, None
        try:
            sol = loopless_solution(m, fluxes=fluxes)
        except ValueError as e:
            raised = True
            obs["exception"] = "ValueError: %s" % e
    if mode == "none":
        if not rec or rec[0][0] != "optimal":
            return None, {"skipped": True, "obs": {"why": "first optimize not optimal"}, "stats": stats}
        wq = [qf(rec[0][2][i]) for i in ids]
        start = "(OwnOptimum %s %s)" % (vec(wq), q(qf(rec[0][1])))
        obs["start_objective_value"] = rec[0][1]
    else:
        if wq is None:
            wq = [qf(fluxes[i]) for i in ids]
        start = "(Given %s)" % vec(wq)
    obs["start_fluxes"] = {i: float(x) for i, x in zip(ids, wq)}
    # classification of the starting vector (for the evidence and for known-finding signatures)
    base = gennet.net_lp(net)
    exact = synthetic or lpexact.feasible(base, wq)
    o = lpexact.certified(base)
    c = coefs(net)
    cw = sum(a * b for a, b in zip(c, wq))
    fbaopt = (1 if net["dir"] == "max" else -1) * sum(a * b for a, b in zip(base["obj"], o[1]))
    if mode == "none":
        sclass = "own-optimum"
    elif not lpexact.feasible(base, wq):
        sclass = "given-not-a-flux-distribution" if synthetic else "given-float-noise"
    else:
        sclass = "given-optimal" if cw == fbaopt else "given-suboptimal"
    stats["start"] = sclass
    cb = cf_bounds(net, wq)
    model_raises = any(lo > hi for lo, hi, _ in cb)
    if exact and not model_raises:
        cert = cert_term(certify(spec_lp(net, wq)))
    else:
        cert = "(CInf [])"
    if sol is not None:
        obs.update(status=sol.status, objective_value=sol.objective_value,
                   fluxes={i: float(sol.fluxes[i]) for i in ids})
        optimal = sol.status == "optimal"
        ov = qf(sol.objective_value) if optimal else None
        fl = [qf(sol.fluxes[i]) for i in ids] if optimal else []
        if optimal and (ov is None or any(x is None for x in fl)):
            optimal, ov, fl = False, None, []
            obs["note"] = "non-finite value in an optimal solution"
    else:
        optimal, ov, fl = False, None, []
    stats["status"] = "ValueError" if raised else obs.get("status")
    term = "(LS (mkLS %s %s %s %s %s %s %s %s))" % (
        gennet.coq_net(net), start, "true" if raised else "false", "true" if optimal else "false",
        q(ov if ov is not None else 0), vec(fl), cert, "true" if synthetic else "false")
    return term, {"obs": obs, "stats": stats, "nontrivial": True, "ill": not exact,
                  "sig": {"method": "loopless_solution", "dir": net["dir"], "start": sclass}}


def run_al(case):
    from cobra.flux_analysis.loopless import add_loopless
    net = case["net"]
    ids = [r["id"] for r in net["rxns"]]
    ints = internal_idx(net)
    S = s_int_rows(net)
    n = len(ints)
    rank, basis = nullspace_exact(S, n)
    m = gennet.to_cobra(net, "glpk")
    obs, stats = {}, {"method": "add_loopless", "dir": net["dir"], "n_internal": n}
    with warnings.catch_warnings():
        warnings.simplefilter("ignore")
        add_loopless(m)
        # the matrix N the implementation really installed (after zero_cutoff)
        N = []
        dg = [m.variables["delta_g_" + ids[i]] for i in ints]
        k = 0
        while "nullspace_constraint_%d" % k in m.constraints:
            co = m.constraints["nullspace_constraint_%d" % k].get_linear_coefficients(dg)
            N.append([F(float(co[v])) for v in dg])
            k += 1
        n_ok = len(N) == n - rank and nullspace_exact(N, n)[0] == len(N) and \
            all(abs(sum(a * b for a, b in zip(row, srow))) <= F(1, 10 ** 9) for row in N for srow in S)
        opt = m.slim_optimize()
        sol = m.optimize()
    obs["N"] = [[float(x) for x in row] for row in N]
    obs["slim_optimize"] = opt
    obs["status"] = sol.status
    o_t = "None" if (opt is None or math.isnan(opt)) else "(Some %s)" % q(qf(opt))
    flux_t, pat_t = "None", "None"
    ill = False
    if sol.status == "optimal":
        fl = [qf(sol.fluxes[i]) for i in ids]
        obs["fluxes"] = {i: float(sol.fluxes[i]) for i in ids}
        obs["objective_value"] = sol.objective_value
        flux_t = "(Some (%s, %s))" % (vec(fl), q(qf(sol.objective_value)))
        pat = []
        for i in ints:
            a = abs(fl[i])
            if a > F(1, 10 ** 5):
                pat.append(1 if fl[i] > 0 else -1)
            elif a < F(1, 10 ** 7):
                pat.append(0)
            else:
                ill = True
        if not ill:
            kind, data = acyc_entry(S, pat)
            pat_t = "(Some ([%s], %s))" % ("; ".join(SG[s] for s in pat), entry_term(kind, data))
    entries = []
    n_acyc = 0
    for pat in all_patterns(n):
        kind, data = acyc_entry(S, pat)
        if kind == "acyclic":
            n_acyc += 1
            entries.append(entry_term(kind, data, certify(region_lp(net, pat))))
        else:
            entries.append(entry_term(kind, data))
    stats["status"] = sol.status
    stats["acyclic_patterns"] = "%d/%d" % (n_acyc, 3 ** n)
    term = "(AL (mkAL %s [%s] %s [%s] %s %s %s))" % (
        gennet.coq_net(net), "; ".join(vec(b) for b in basis), "true" if n_ok else "false",
        "; ".join(entries), o_t, flux_t, pat_t)
    return term, {"obs": obs, "stats": stats, "nontrivial": True, "ill": ill,
                  "sig": {"method": "add_loopless", "dir": net["dir"]}}


def case_term(case):
    return run_ls(case) if case["kind"] == "ls" else run_al(case)


def signature(info, codes):
    sig = dict(info.get("sig", {}))
    cs = sorted(c for c in codes if c != 9)
    sig["codes"] = cs
    # the class the known findings are keyed on: the objective pin of loopless_solution (objective value drifts /
    # status contradicts the verdict); a surviving cycle (6) alone, or any other failure, is never excused
    sig["failed"] = "objective-pin" if cs and set(cs) <= {5, 6, 7} and set(cs) & {5, 7} else "other"
    return sig


# ---------------------------------------------------------------------------------- driver (lpcheck.py adapted)
def evaluate(cs):
    terms, infos = [], []

    def one(c):
        try:
            return case_term(c)
        except Exception as e:  # implementation crashed in an unforeseen way: report, never hide
            return None, {"harness_exception": "%s: %s" % (type(e).__name__, e)}
    try:
        import cobra  # noqa: F401  (once in the parent; the forked children share it)
        import cobra.flux_analysis  # noqa: F401
    except Exception:  # noqa
        pass
    for kind, val in K.map_isolated(one, cs):     # GLPK may abort the process (bflib/sgf.c): survive and count
        t, inf = val if kind == "ok" else (None, {"skipped": True, "aborted": val,
                                                  "stats": {"verdict": "process aborted by the solver library or timed out"}})
        infos.append(inf)
        terms.append(t)
    idx = [i for i, t in enumerate(terms) if t is not None]
    res, faults = K.coq_eval_cases(HEADER, [terms[i] for i in idx], CASE_TYPE, "failing", shard=SHARD, timeout=1500)
    out = {}
    for k, lst in res:
        out[idx[k]] = sorted({code for _, code in lst})
    return out, faults, infos


def shrink_candidates(cur):
    net = cur["net"]
    cands = []
    for i in range(len(net["rxns"])):
        if len(net["rxns"]) > 1:
            c = copy.deepcopy(cur)
            del c["net"]["rxns"][i]
            cands.append(c)
    for mname in list(net["mets"]):
        if len(net["mets"]) > 1:
            c = copy.deepcopy(cur)
            c["net"]["mets"].remove(mname)
            for r in c["net"]["rxns"]:
                r["st"].pop(mname, None)
            c["net"]["rxns"] = [r for r in c["net"]["rxns"] if r["st"]]
            if c["net"]["rxns"]:
                cands.append(c)
    for i, r in enumerate(net["rxns"]):
        for key, simple in (("lb", ["0", "-1000"]), ("ub", ["1000", "0"])):
            for sv in simple:
                new = dict(r)
                new[key] = sv
                if r[key] != sv and F(new["lb"]) <= F(new["ub"]):
                    c = copy.deepcopy(cur)
                    c["net"]["rxns"][i][key] = sv
                    cands.append(c)
    return [c for c in cands if any(F(r["obj"]) != 0 for r in c["net"]["rxns"])]


def shrink(case, want, sig0, rounds=12):
    """Greedy shrinking; all candidates of a round are evaluated in one batch."""
    cur = case
    for _ in range(rounds):
        cands = shrink_candidates(cur)
        if not cands:
            break
        r, f, infos = evaluate(cands)
        if f:
            break
        nxt = None
        for i, c in enumerate(cands):
            if i in r and any(w in r[i] for w in want):
                s = signature(infos[i], r[i])
                if all(s.get(k) == v for k, v in sig0.items() if k != "codes"):
                    nxt = c
                    break
        if nxt is None:
            break
        cur = nxt
    return cur


def main(argv=None):
    args = K.parse_args(argv)
    rep = K.Reporter(PROP, args.tier, args.seed)
    info, broken = K.standard_prelude(PROP, rep, extra_targets=EXTRA_TARGETS)
    rng = random.Random(args.seed)
    t_gen = time.time()
    if args.replay:
        cases = [json.load(open(args.replay))["case"]]
    else:
        cases = []
        corpus = os.path.join(K.VERIF, "corpus", PROP)
        if os.path.isdir(corpus):
            for f in sorted(os.listdir(corpus)):
                if f.endswith(".json"):
                    cases.append(json.load(open(os.path.join(corpus, f)))["case"])
        cases += gen_cases(rng, args.tier)

    res, faults, infos = evaluate(cases)
    if faults:
        print("HARNESS FAULT: model evaluation failed:\n" + "\n".join(faults[:3]))
        broken.append("model evaluation (coqc on generated cases) failed: " + faults[0][-800:])

    stats, skipped, ill, nontrivial = {}, 0, 0, set()
    for c, inf in zip(cases, infos):
        for k, v in inf.get("stats", {}).items():
            stats.setdefault(k, {})
            stats[k][str(v)] = stats[k].get(str(v), 0) + 1
        if inf.get("skipped"):
            skipped += 1
        elif inf.get("nontrivial", True) and not inf.get("harness_exception"):
            nontrivial.add(json.dumps(c, sort_keys=True))
        if inf.get("ill"):
            ill += 1
        if inf.get("harness_exception"):
            broken.append("harness exception on a case: " + inf["harness_exception"])

    seen, n_fail, n_unknown = set(), 0, 0
    for idx in sorted(res):
        codes = res[idx]
        if codes == [9]:
            n_unknown += 1
            continue
        n_fail += 1
        sig0 = signature(infos[idx], codes)
        key = json.dumps(sig0, sort_keys=True)
        if key in seen or len(seen) >= 8:
            continue
        seen.add(key)
        want = [c for c in codes if c != 9]
        small = cases[idx] if args.replay else shrink(cases[idx], want, sig0)
        r2, _, inf2 = evaluate([small])
        codes2 = r2.get(0, codes)
        code = next((c for c in codes2 if c != 9), codes2[0] if codes2 else want[0])
        replay = {"case": small, "failed": CODES.get(code, str(code)), "codes": codes2,
                  "all_code_meanings": {str(k): v for k, v in CODES.items()},
                  "implementation_observation": inf2[0].get("obs"), "theorem": THEOREMS}
        rep.violation(signature(inf2[0], codes2), replay)

    if n_unknown:
        broken.append("%d case(s): exact oracle certificate rejected by the Coq checker (code 9)" % n_unknown)
    if broken and rep.violations == 0:      # known findings never hide a broken obligation
        rep.violation({"broken": True}, {"broken_obligations": broken,
                      "note": "a proof obligation, the translator or the correspondence machinery no longer "
                              "checks; no failing input found"}, no_input=True)
    elif broken and rep.violations == 0:
        rep.violation({"broken": True}, {"broken_obligations": broken}, no_input=True)

    samples = [cases[i] for i in sorted({0, len(cases) // 2, len(cases) - 1})] if cases else []
    evidence = {
        "level": "proof",
        "coverage": {
            "obligations": info["obligations"], "discharged": info["discharged"],
            "checker_cmd": info["checker_cmd"],
            "trusted_base": K.TRUSTED_COMMON + TRUSTED,
            "axioms_reported_by_Print_Assumptions": info["axioms"],
            "evaluations": len(cases), "distinct_nontrivial": len(nontrivial),
            "rule": RULE, "samples": samples,
            "traces_validated_against_impl": len(cases) - n_fail - skipped - n_unknown,
            "disagreements_checked": n_fail, "exhaustive": False,
            "skipped_no_exact_start_vector": skipped,
            "ill_conditioned_partially_checked": ill,
            "oracle_unknown": n_unknown,
            "input_distribution": stats,
            "broken_obligations": broken,
            "case_generation_and_run_s": round(time.time() - t_gen, 1),
        },
        "assumptions": ASSUMPTIONS,
    }
    return rep.finish(evidence)


if __name__ == "__main__":
    sys.exit(main())
