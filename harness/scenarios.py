"""Fixed small histories on the real code (monitors, run with every C02 / C03 check).

The generators of the kernels draw identifiers per object class and hand fresh containers to every call; two
realistic situations are therefore outside their reach and are pinned here as explicit scenarios:

* two groups built from the SAME Python set of members must not share it afterwards (C02: an edit of one group
  changes exactly that group);
* a group that holds two members of different kinds with the same identifier (a reaction "X1" and a gene "X1" --
  identifiers are unique per kind only) must get both back when one of them is removed inside a `with model:` block
  and the block is left (C03).

Each scenario states the expected outcome from the documentation alone; a failure is reported through the Reporter
with the scenario's name as signature.
"""
import os
import sys
import warnings

sys.path.insert(0, os.path.dirname(os.path.abspath(__file__)))
import common as K  # noqa: E402

sys.path.insert(0, os.path.join(K.REPO, "src"))


def _model():
    import cobra
    m = cobra.Model("s")
    a, b, c = (cobra.Metabolite(x, compartment="c") for x in ("a_c", "b_c", "c_c"))
    r1, r2, r3 = cobra.Reaction("X1"), cobra.Reaction("X2"), cobra.Reaction("X3")
    r1.add_metabolites({a: -1, b: 1})
    r2.add_metabolites({b: -1, c: 1})
    r3.add_metabolites({c: -1})
    for r in (r1, r2, r3):
        r.bounds = (0, 10)
    m.add_reactions([r1, r2, r3])
    r1.gene_reaction_rule = "X1 or g2"          # a gene whose identifier equals the reaction's
    r2.gene_reaction_rule = "g2"
    return m


def shared_member_container():
    from cobra.core.group import Group
    m = _model()
    r1, r2, r3 = m.reactions
    fails = []
    for label, mk in (("set", lambda: {r1, r2}), ("list", lambda: [r1, r2]), ("tuple", lambda: (r1, r2))):
        box = mk()
        g1, g2 = Group("p1", members=box), Group("p2", members=box)
        m.add_groups([g1, g2])
        g2.add_members([r3])
        if any(x is r3 for x in g1.members):
            fails.append("two groups built from one %s: adding a member to the second changed the first" % label)
        g2.remove_members([r1])
        if not any(x is r1 for x in g1.members):
            fails.append("two groups built from one %s: removing a member from the second changed the first" % label)
        m.remove_groups([g1, g2])
    return fails


def same_identifier_different_kinds():
    from cobra.core.group import Group
    from cobra.manipulation import remove_genes
    fails = []
    for what in ("remove_reactions", "remove_genes", "remove_from_model"):
        m = _model()
        rxn, gene = m.reactions.get_by_id("X1"), m.genes.get_by_id("X1")
        g = Group("mixed", members=[rxn, gene, m.metabolites.get_by_id("a_c")])
        m.add_groups([g])
        before = sorted((type(x).__name__, x.id) for x in g.members)
        try:
            with m:
                if what == "remove_reactions":
                    m.remove_reactions([rxn])
                elif what == "remove_from_model":
                    rxn.remove_from_model()
                else:
                    remove_genes(m, [gene], remove_reactions=False)
                inside = sorted((type(x).__name__, x.id) for x in g.members)
                gone = ("Reaction", "X1") if what != "remove_genes" else ("Gene", "X1")
                keep = ("Gene", "X1") if what != "remove_genes" else ("Reaction", "X1")
                if gone in inside:
                    fails.append("%s: the removed object is still a member inside the block" % what)
                if keep not in inside:
                    fails.append("%s: the member of the OTHER kind with the same identifier left the group as well" % what)
        except Exception as e:  # noqa
            fails.append("%s: raised %s: %s" % (what, type(e).__name__, str(e)[:120]))
            continue
        after = sorted((type(x).__name__, x.id) for x in g.members)
        if after != before:
            fails.append("%s inside a block: membership after the exit %s differs from the one at entry %s"
                         % (what, after, before))
    return fails


def genes_of_one_group_removed_together():
    from cobra.core.group import Group
    from cobra.manipulation import remove_genes
    fails = []
    m = _model()
    g1, g2 = m.genes.get_by_id("X1"), m.genes.get_by_id("g2")
    grp = Group("genes", members=[g1, g2, m.reactions.get_by_id("X3")])
    m.add_groups([grp])
    before = sorted((type(x).__name__, x.id) for x in grp.members)
    for nested in (False, True):
        try:
            with m:
                if nested:
                    m.__enter__()
                remove_genes(m, [g1, g2], remove_reactions=False)
                if nested:
                    m.__exit__(None, None, None)
        except Exception as e:  # noqa
            fails.append("raised %s: %s" % (type(e).__name__, str(e)[:120]))
            continue
        after = sorted((type(x).__name__, x.id) for x in grp.members)
        if after != before:
            fails.append("remove_genes of two genes of one group inside a %sblock: membership after the exit %s differs from "
                         "the one at entry %s" % ("nested " if nested else "", after, before))
    return fails


def _run(rep, fns, prop):
    out = {}
    with warnings.catch_warnings():
        warnings.simplefilter("ignore")
        for fn in fns:
            try:
                fails = fn()
            except Exception as e:  # noqa
                fails = ["scenario raised %s: %s" % (type(e).__name__, str(e)[:200])]
            out[fn.__name__] = "ok" if not fails else fails
            if fails:
                rep.violation({"kernel": "scenarios", "scenario": fn.__name__},
                              {"scenario": fn.__name__, "failed": fails,
                               "how_to_read": "harness/scenarios.py: %s() executes the history on the real code" % fn.__name__})
    return out


def run_c02(rep, args, rng):
    return _run(rep, [shared_member_container], "C02")


def run_c03(rep, args, rng):
    return _run(rep, [same_identifier_different_kinds, genes_of_one_group_removed_together], "C03")


if __name__ == "__main__":
    print(shared_member_container(), same_identifier_different_kinds())
