"""C14 tables: worker skeletons of the parallel analyses, regenerated from the CURRENT source.

Output coq/theories/Gen/SchedSkeleton.v:
  current_fva_skeleton                : list wstmt   -- statement sequence of variability._fva_step
  current_reaction_deletion_skeleton  : list dstmt   -- deletion._reaction_deletion
  current_gene_deletion_skeleton      : list dstmt   -- deletion._gene_deletion
  a few boolean facts about the drivers (objective zeroed before the pools are created, chunk size
  = n // processes with processes = min(processes, n), imap_unordered, results keyed by id, ...)

Fail-closed: every statement of the worker functions must be one of the recognised shapes; anything
else (a new statement, a try/finally, a manual save/restore) raises Abort, the file disappears and
coq/theories/Sched/Current.v no longer compiles."""
import ast
from tables_lib import section, parse, find_def, Abort


def _strip(fn):
    body = list(fn.body)
    if body and isinstance(body[0], ast.Expr) and isinstance(body[0].value, ast.Constant) \
            and isinstance(body[0].value.value, str):
        body = body[1:]
    return [s for s in body if not isinstance(s, ast.Global)]


def _dotted(node):
    """a.b.c -> 'a.b.c' (Names/Attributes only)."""
    parts = []
    while isinstance(node, ast.Attribute):
        parts.append(node.attr)
        node = node.value
    if isinstance(node, ast.Name):
        parts.append(node.id)
        return ".".join(reversed(parts))
    return None


def _int(node):
    if isinstance(node, ast.UnaryOp) and isinstance(node.op, ast.USub):
        return -_int(node.operand)
    if isinstance(node, ast.Constant) and isinstance(node.value, int) and not isinstance(node.value, bool):
        return node.value
    if isinstance(node, ast.Constant) and isinstance(node.value, float) and node.value == int(node.value):
        return int(node.value)
    raise Abort("integer literal expected as objective coefficient, got %s" % ast.dump(node))


def _z(n):
    return "(%d)" % n if n < 0 else "%d" % n


def _call(st, name):
    """st is `Expr(Call(<dotted name>, ...))` -> the Call, else None."""
    if isinstance(st, ast.Expr) and isinstance(st.value, ast.Call) and _dotted(st.value.func) == name:
        return st.value
    return None


def fva_step_skeleton(fn):
    if [a.arg for a in fn.args.args] != ["reaction_id"]:
        raise Abort("_fva_step: unexpected parameters")
    out = []
    for st in _strip(fn):
        # rxn = _model.reactions.get_by_id(reaction_id)
        if isinstance(st, ast.Assign) and len(st.targets) == 1 and isinstance(st.targets[0], ast.Name) \
                and st.targets[0].id == "rxn" and isinstance(st.value, ast.Call) \
                and _dotted(st.value.func) == "_model.reactions.get_by_id" \
                and len(st.value.args) == 1 and _dotted(st.value.args[0]) == "reaction_id":
            out.append("SLookup")
            continue
        c = _call(st, "_model.solver.objective.set_linear_coefficients")
        if c is not None:
            if len(c.args) != 1 or c.keywords or not isinstance(c.args[0], ast.Dict):
                raise Abort("_fva_step: set_linear_coefficients argument is not a dict literal")
            ws = []
            for k, v in zip(c.args[0].keys, c.args[0].values):
                kind = {"rxn.forward_variable": "KFwd", "rxn.reverse_variable": "KRev"}.get(_dotted(k))
                if kind is None:
                    raise Abort("_fva_step: coefficient of an unrecognised variable %s" % ast.dump(k))
                ws.append("(%s, %s)" % (kind, _z(_int(v))))
            out.append("SSetObj [%s]" % "; ".join(ws))
            continue
        c = _call(st, "_model.slim_optimize")
        if c is not None and not c.args and not c.keywords:
            out.append("SSolve")
            continue
        c = _call(st, "sutil.check_solver_status")
        if c is not None and len(c.args) == 1 and not c.keywords and _dotted(c.args[0]) == "_model.solver.status":
            out.append("SCheckStatus")
            continue
        # if _loopless: value = loopless_fva_iter(_model, rxn)  else: value = _model.solver.objective.value
        if isinstance(st, ast.If) and _dotted(st.test) == "_loopless" and len(st.body) == 1 and len(st.orelse) == 1:
            a, b = st.body[0], st.orelse[0]
            ok = (isinstance(a, ast.Assign) and _dotted(a.targets[0]) == "value" and isinstance(a.value, ast.Call)
                  and _dotted(a.value.func) == "loopless_fva_iter"
                  and [_dotted(x) for x in a.value.args] == ["_model", "rxn"] and not a.value.keywords
                  and isinstance(b, ast.Assign) and _dotted(b.targets[0]) == "value"
                  and _dotted(b.value) == "_model.solver.objective.value")
            if ok:
                out.append("SValue")
                continue
        # if value is None: value = float("nan"); logger.warning(...)
        if isinstance(st, ast.If) and isinstance(st.test, ast.Compare) and _dotted(st.test.left) == "value" \
                and len(st.test.ops) == 1 and isinstance(st.test.ops[0], ast.Is) \
                and isinstance(st.test.comparators[0], ast.Constant) and st.test.comparators[0].value is None \
                and not st.orelse:
            ok = True
            for s in st.body:
                if isinstance(s, ast.Assign) and _dotted(s.targets[0]) == "value" and isinstance(s.value, ast.Call) \
                        and _dotted(s.value.func) == "float":
                    continue
                if _call(s, "logger.warning") is not None:
                    continue
                ok = False
            if ok:
                out.append("SNanIfNone")
                continue
        if isinstance(st, ast.Return) and isinstance(st.value, ast.Tuple) \
                and [_dotted(e) for e in st.value.elts] == ["reaction_id", "value"]:
            out.append("SReturn")
            continue
        raise Abort("_fva_step: unrecognised statement at line %d: %s" % (st.lineno, ast.unparse(st)[:80]))
    return out


def deletion_skeleton(fn, coll):
    params = [a.arg for a in fn.args.args]
    if len(params) != 2 or params[0] != "model":
        raise Abort("%s: unexpected parameters" % fn.name)
    ids = params[1]

    def simple(st):
        # for x in ids: model.<coll>.get_by_id(x).knock_out()
        if isinstance(st, ast.For) and isinstance(st.target, ast.Name) and _dotted(st.iter) == ids \
                and len(st.body) == 1 and not st.orelse:
            b = st.body[0]
            if isinstance(b, ast.Expr) and isinstance(b.value, ast.Call) and not b.value.args \
                    and isinstance(b.value.func, ast.Attribute) and b.value.func.attr == "knock_out":
                inner = b.value.func.value
                if isinstance(inner, ast.Call) and _dotted(inner.func) == "model.%s.get_by_id" % coll \
                        and len(inner.args) == 1 and _dotted(inner.args[0]) == st.target.id:
                    return "DKnockLoop"
        # growth, status = _get_growth(model)
        if isinstance(st, ast.Assign) and len(st.targets) == 1 and isinstance(st.targets[0], ast.Tuple) \
                and [_dotted(e) for e in st.targets[0].elts] == ["growth", "status"] \
                and isinstance(st.value, ast.Call) and _dotted(st.value.func) == "_get_growth" \
                and [_dotted(a) for a in st.value.args] == ["model"]:
            return "DGrowth"
        if isinstance(st, ast.Return) and isinstance(st.value, ast.Tuple) \
                and [_dotted(e) for e in st.value.elts] == [ids, "growth", "status"]:
            return "DReturn"
        raise Abort("%s: unrecognised statement at line %d: %s" % (fn.name, st.lineno, ast.unparse(st)[:80]))

    out = []
    for st in _strip(fn):
        if isinstance(st, ast.With):
            if len(st.items) != 1 or _dotted(st.items[0].context_expr) != "model" or st.items[0].optional_vars:
                raise Abort("%s: `with` on something else than the model" % fn.name)
            out.append("DWith [%s]" % "; ".join(simple(s) for s in st.body))
        else:
            out.append("DTop %s" % simple(st))
    return out


def _worker_delegates(tree, worker, target):
    fn = find_def(tree, worker)
    body = _strip(fn)
    if len(body) == 1 and isinstance(body[0], ast.Return) and isinstance(body[0].value, ast.Call) \
            and _dotted(body[0].value.func) == target \
            and [_dotted(a) for a in body[0].value.args] == ["_model", fn.args.args[0].arg]:
        return True
    raise Abort("%s does not simply return %s(_model, ids)" % (worker, target))


def _contains(node, pred):
    return any(pred(n) for n in ast.walk(node))


def _b(x):
    return "true" if x else "false"


@section("SchedSkeleton")
def sched(repo):
    out = ["From Cobra.Sched Require Import Workers.", ""]
    # ---------------------------------------------------------------- FVA
    tree, _ = parse(repo, "flux_analysis/variability.py")
    sk = fva_step_skeleton(find_def(tree, "_fva_step"))
    out.append("Definition current_fva_skeleton : list wstmt :=\n  [%s]." % ";\n   ".join(sk))
    # _init_worker sets the direction of the process-global model
    init = find_def(tree, "_init_worker")
    sets_dir = any(isinstance(s, ast.Assign) and _dotted(s.targets[0]) == "_model.solver.objective.direction"
                   and _dotted(s.value) == "sense" for s in _strip(init))
    out.append("Definition fva_init_sets_direction : bool := %s." % _b(sets_dir))
    fva = find_def(tree, "flux_variability_analysis")
    withs = [s for s in fva.body if isinstance(s, ast.With) and _dotted(s.items[0].context_expr) == "model"]
    if len(withs) != 1:
        raise Abort("flux_variability_analysis: expected exactly one top-level `with model:`")
    body = withs[0].body
    loops = [i for i, s in enumerate(body) if isinstance(s, ast.For) and _dotted(s.target) == "what"]
    if len(loops) != 1:
        raise Abort("flux_variability_analysis: the `for what in (...)` loop was not found")
    zero_at = [i for i, s in enumerate(body) if isinstance(s, ast.Assign) and _dotted(s.targets[0]) == "model.objective"
               and _dotted(s.value) == "Zero"]
    # the objective is zeroed before the passes, and nothing between it and the loop
    out.append("Definition fva_objective_zeroed_before_passes : bool := %s."
               % _b(bool(zero_at) and zero_at[-1] == loops[0] - 1))
    loop = body[loops[0]]
    senses = [e.value for e in loop.iter.elts] if isinstance(loop.iter, ast.Tuple) else None
    out.append("Definition fva_passes_min_then_max : bool := %s." % _b(senses == ["minimum", "maximum"]))

    def is_floor_chunk(s, seq):
        return (isinstance(s, ast.Assign) and _dotted(s.targets[0]) == "chunk_size"
                and isinstance(s.value, ast.BinOp) and isinstance(s.value.op, ast.FloorDiv)
                and isinstance(s.value.left, ast.Call) and _dotted(s.value.left.func) == "len"
                and _dotted(s.value.left.args[0]) == seq and _dotted(s.value.right) == "processes")

    def is_min_procs(s, n_expr):
        return (isinstance(s, ast.Assign) and _dotted(s.targets[0]) == "processes"
                and isinstance(s.value, ast.Call) and _dotted(s.value.func) == "min"
                and len(s.value.args) == 2 and _dotted(s.value.args[0]) == "processes"
                and ast.unparse(s.value.args[1]) == n_expr)

    def is_imap(n, fn_name, seq):
        return (isinstance(n, ast.Call) and _dotted(n.func) == "pool.imap_unordered"
                and len(n.args) == 2 and _dotted(n.args[0]) == fn_name and _dotted(n.args[1]) == seq
                and [k.arg for k in n.keywords] == ["chunksize"] and _dotted(n.keywords[0].value) == "chunk_size")

    def gate_is_gt1(n):
        return (isinstance(n, ast.If) and isinstance(n.test, ast.Compare) and _dotted(n.test.left) == "processes"
                and isinstance(n.test.ops[0], ast.Gt) and isinstance(n.test.comparators[0], ast.Constant)
                and n.test.comparators[0].value == 1)

    out.append("Definition fva_chunk_is_floor_div : bool := %s."
               % _b(_contains(loop, lambda s: is_floor_chunk(s, "reaction_ids"))
                    and _contains(fva, lambda s: is_min_procs(s, "num_reactions"))
                    and _contains(fva, lambda s: isinstance(s, ast.Assign) and _dotted(s.targets[0]) == "num_reactions"
                                  and ast.unparse(s.value) == "len(reaction_ids)")))
    out.append("Definition fva_uses_imap_unordered : bool := %s."
               % _b(_contains(loop, lambda n: is_imap(n, "_fva_step", "reaction_ids"))
                    and _contains(loop, gate_is_gt1)))
    keyed = [n for n in ast.walk(loop) if isinstance(n, ast.Assign) and isinstance(n.targets[0], ast.Subscript)
             and _dotted(n.targets[0].value) == "fva_result.at"]
    keyed_ok = len(keyed) == 2 and all(
        isinstance(n.targets[0].slice, ast.Tuple) and [_dotted(e) for e in n.targets[0].slice.elts] == ["rxn_id", "what"]
        and _dotted(n.value) == "value" for n in keyed)
    out.append("Definition fva_results_keyed_by_id : bool := %s." % _b(keyed_ok))
    serial_ok = _contains(loop, lambda n: isinstance(n, ast.Call) and _dotted(n.func) == "map"
                          and [_dotted(a) for a in n.args] == ["_fva_step", "reaction_ids"])
    out.append("Definition fva_serial_is_map : bool := %s." % _b(serial_ok))
    # ---------------------------------------------------------------- deletions
    tree, _ = parse(repo, "flux_analysis/deletion.py")
    rsk = deletion_skeleton(find_def(tree, "_reaction_deletion"), "reactions")
    gsk = deletion_skeleton(find_def(tree, "_gene_deletion"), "genes")
    out.append("Definition current_reaction_deletion_skeleton : list dstmt :=\n  [%s]." % "; ".join(rsk))
    out.append("Definition current_gene_deletion_skeleton : list dstmt :=\n  [%s]." % "; ".join(gsk))
    _worker_delegates(tree, "_reaction_deletion_worker", "_reaction_deletion")
    _worker_delegates(tree, "_gene_deletion_worker", "_gene_deletion")
    out.append("Definition deletion_workers_delegate : bool := true.")
    gg = find_def(tree, "_get_growth")
    catches = _contains(gg, lambda n: isinstance(n, ast.ExceptHandler) and _dotted(n.type) == "SolverError")
    out.append("Definition get_growth_catches_solver_error : bool := %s." % _b(catches))
    md = find_def(tree, "_multi_deletion")
    out.append("Definition deletion_chunk_is_floor_div : bool := %s."
               % _b(_contains(md, lambda s: is_floor_chunk(s, "args"))
                    and _contains(md, lambda s: is_min_procs(s, "len(args)"))))
    out.append("Definition deletion_uses_imap_unordered : bool := %s."
               % _b(_contains(md, lambda n: is_imap(n, "worker", "args")) and _contains(md, gate_is_gt1)))
    args_set = _contains(md, lambda s: isinstance(s, ast.Assign) and _dotted(s.targets[0]) == "args"
                         and isinstance(s.value, ast.SetComp) and isinstance(s.value.elt, ast.Call)
                         and _dotted(s.value.elt.func) == "frozenset")
    out.append("Definition deletion_args_is_set_of_frozensets : bool := %s." % _b(args_set))
    return "\n".join(out)
