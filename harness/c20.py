"""C20 — summaries report the fluxes of the solution they describe.

Correspondence of cobra.summary.{ModelSummary,MetaboliteSummary,ReactionSummary} with the Gallina
model (coq/theories/Summary/Model.v) and the Coq-defined monitors (coq/theories/Summary/Check.v)
on what the real summaries return, on small random stoichiometric networks built as real cobra
Models.  All three renderings (to_string / to_html / to_frame) are invoked (monitored only)."""
import json
import math
import os
import random
import sys
from fractions import Fraction as F

sys.path.insert(0, os.path.dirname(os.path.abspath(__file__)))
import common as K  # noqa: E402
from common import C, Raw, Some, coq  # noqa: E402

sys.path.insert(0, os.path.join(K.REPO, "src"))

PROP = "C20"
CODES = {1: "model (Summary/Model.v) and implementation differ",
         2: "a boundary reaction / reaction of the metabolite is not listed exactly once on the side given by the "
            "sign of its scaled flux",
         3: "listed flux is not solution flux x stoichiometric coefficient",
         4: "producing and consuming totals do not balance",
         5: "percentages on a side do not sum to one",
         6: "fva range is not the scaled (ordered, flux-containing) FVA range",
         7: "a rendering (to_string / to_html / to_frame) raised",
         8: "objective value is not sum(coefficient x solution flux)",
         9: "summary did not obtain its solution / FVA as documented (pfba default, FVA on the listed reactions "
            "at the given fraction)"}

COEFS = [F(1), F(-1), F(2), F(-2), F(1, 2), F(-1, 2)]
BOUNDS = [0, 1, -1, 5, -5, 10, -10, 1000, -1000]
RXN_IDS = ["R1", "R10", "R2", "r3", "Ab", "aB", "T_x", "PGI", "v_9", "Z", "b2", "ATPM", "Rz", "R_11", "q"]


# ------------------------------------------------------------------ generator (JSON-able specs)

def fs(x):
    return str(F(x))


def gen_network(rng):
    """2-6 metabolites, 3-9 reactions, exchanges in export (`A_e -->`) or import (`--> A_e`) form,
    coefficients +-1, +-2, +-1/2, bounds from {0,+-1,+-5,+-10,+-1000}."""
    n_int = rng.randrange(1, 5)
    n_ext = rng.randrange(1, 3)
    ints = ["M%d_c" % i for i in range(n_int)]
    exts = ["X%d_e" % i for i in range(n_ext)]
    mets = ints + exts
    rxns = []
    free_ids = RXN_IDS[:]
    rng.shuffle(free_ids)

    def bounds(kind):
        if kind == "irr":
            lb, ub = 0, rng.choice([1, 5, 10, 1000])
        elif kind == "rev":
            lb, ub = rng.choice([-1, -5, -10, -1000]), rng.choice([1, 5, 10, 1000])
        elif kind == "neg":
            lb, ub = rng.choice([-5, -10, -1000]), 0
        else:
            a, b = rng.choice(BOUNDS), rng.choice(BOUNDS)
            lb, ub = min(a, b), max(a, b)
        return lb, ub

    def add(rid, d, kind):
        lb, ub = bounds(kind)
        rxns.append({"id": rid, "mets": {m: fs(c) for m, c in d.items()}, "lb": lb, "ub": ub})

    for i, x in enumerate(exts):
        form = rng.choice(["export", "import"])
        mag = rng.choice([F(1), F(1), F(2), F(1, 2)])
        if form == "export":      # A_e -->   uptake is negative flux
            add(rng.choice(["EX_", "ex_"]) + x, {x: -mag}, rng.choice(["rev", "rev", "any", "neg"]))
        else:                     # --> A_e   uptake is positive flux
            add(rng.choice(["IM_", "im_"]) + x, {x: mag}, rng.choice(["rev", "rev", "any", "irr"]))
        add("T" + str(i) + rng.choice(["", "a", "_"]), {x: rng.choice([F(-1), F(-2), F(-1, 2)]),
                                                        rng.choice(ints): rng.choice([F(1), F(2), F(1, 2)])},
            rng.choice(["irr", "rev"]))
    n_more = rng.randrange(1, 5)
    for _ in range(n_more):
        if len(rxns) >= 8:
            break
        rid = free_ids.pop()
        if n_int >= 2:
            a, b = rng.sample(ints, 2)
            d = {a: rng.choice([F(-1), F(-2), F(-1, 2)]), b: rng.choice([F(1), F(2), F(1, 2)])}
            if n_int >= 3 and rng.random() < 0.3:
                c3 = rng.choice([m for m in ints if m not in (a, b)])
                d[c3] = rng.choice(COEFS)
        else:
            d = {ints[0]: rng.choice(COEFS), rng.choice(exts): rng.choice(COEFS)}
        add(rid, d, rng.choice(["irr", "irr", "rev", "any"]))
    # demand / sink on an internal metabolite (boundary reactions too); sometimes in import form
    for _ in range(rng.randrange(1, 3)):
        if len(rxns) >= 9:
            break
        m = rng.choice(ints)
        rid = rng.choice(["DM_", "SK_", "dm_"]) + m
        if any(r["id"] == rid for r in rxns):
            continue
        add(rid, {m: rng.choice([F(-1), F(-1), F(1), F(-2), F(1, 2)])}, rng.choice(["irr", "rev", "any"]))
    rng.shuffle(rxns)
    cands = [r["id"] for r in rxns]
    obj = {}
    for rid in rng.sample(cands, rng.choice([1, 1, 2])):
        obj[rid] = rng.choice([1, 1, -1, 2])
    tol = rng.choice([None, None, None, 1e-6, 1e-9])
    return {"mets": mets, "rxns": rxns, "objective": obj, "direction": rng.choice(["max", "max", "min"]),
            "tolerance": tol}


def dyadic(rng, small_ok=True):
    r = rng.random()
    if r < 0.12:
        return F(0)
    if small_ok and r < 0.24:     # below every tolerance used (2^-34 .. 2^-31)
        return F(rng.choice([1, -1, 3, -3]), 2 ** rng.choice([31, 33, 34]))
    if small_ok and r < 0.30:     # between 1e-9 and 1e-6
        return F(rng.choice([1, -1, 5, -5]), 2 ** rng.choice([24, 26, 28]))
    j = rng.randrange(0, 7)
    k = rng.randrange(-2 ** rng.choice([4, 8, 12, 20]), 2 ** rng.choice([4, 8, 12, 20]) + 1)
    return F(k, 2 ** j)


def nullspace_int(net):
    """Integer basis of {v : S v = 0} by exact Gaussian elimination over the rationals."""
    rids = [r["id"] for r in net["rxns"]]
    rows = [[F(r["mets"].get(m, 0)) for r in net["rxns"]] for m in net["mets"]]
    n = len(rids)
    piv = []
    r = 0
    for c in range(n):
        p = next((i for i in range(r, len(rows)) if rows[i][c] != 0), None)
        if p is None:
            continue
        rows[r], rows[p] = rows[p], rows[r]
        rows[r] = [x / rows[r][c] for x in rows[r]]
        for i in range(len(rows)):
            if i != r and rows[i][c] != 0:
                f = rows[i][c]
                rows[i] = [a - f * b for a, b in zip(rows[i], rows[r])]
        piv.append(c)
        r += 1
        if r == len(rows):
            break
    free = [c for c in range(n) if c not in piv]
    basis = []
    for fc in free:
        v = [F(0)] * n
        v[fc] = F(1)
        for i, pc in enumerate(piv):
            v[pc] = -rows[i][fc]
        den = 1
        for x in v:
            den = den * x.denominator // math.gcd(den, x.denominator)
        basis.append([int(x * den) for x in v])
    return basis


def gen_given_solution(rng, net):
    """Dyadic flux vector: arbitrary, or an exact steady state (integer null-space combination / 2^j)."""
    rids = [r["id"] for r in net["rxns"]]
    if rng.random() < 0.6:
        basis = nullspace_int(net)
        if basis:
            v = [F(0)] * len(rids)
            for b in basis:
                if rng.random() < 0.8:
                    w = dyadic(rng, small_ok=rng.random() < 0.3)
                    v = [a + w * x for a, x in zip(v, b)]
            return {"steady": True, "fluxes": {rid: fs(x) for rid, x in zip(rids, v)}}
    fl = {rid: dyadic(rng) for rid in rids}
    if rng.random() < 0.3:      # a flux sitting exactly on the tolerance (the double itself is dyadic)
        tol = F(net.get("tolerance") or 1e-7)
        fl[rng.choice(rids)] = rng.choice([tol, -tol])
    return {"steady": False, "fluxes": {rid: fs(x) for rid, x in fl.items()}}


def gen_fva_frame(rng, net, fluxes):
    fr = {}
    for r in net["rxns"]:
        v = F(fluxes[r["id"]]) if fluxes else dyadic(rng)
        k = rng.random()
        if k < 0.5:           # a range containing the flux
            a, b = v - abs(dyadic(rng)), v + abs(dyadic(rng))
        elif k < 0.6:
            a = b = v
        else:                 # arbitrary (the summary does not check the frame)
            a, b = sorted([dyadic(rng), dyadic(rng)])
        if rng.random() < 0.05:   # range ends exactly on the tolerance
            tol = F(net.get("tolerance") or 1e-7)
            a, b = rng.choice([(-tol, tol), (tol, tol), (-tol, -tol)])
        fr[r["id"]] = [fs(a), fs(b)]
    if rng.random() < 0.3 and len(fr) > 1:
        # a frame computed for a reaction_list: rows for some reactions only (the summaries left-join it)
        for rid in rng.sample(sorted(fr), rng.randrange(1, len(fr))):
            del fr[rid]
    return fr


def gen_groups(rng, n_networks, combos_per_net):
    groups = []
    for i in range(n_networks):
        net = gen_network(rng)
        all_combos = [(s, f) for s in ("given", "optimize", "pfba") for f in ("none", "float", "frame")]
        if combos_per_net >= len(all_combos):
            combos = all_combos
        else:
            combos = [("given", rng.choice(["none", "frame", "frame"]))] + rng.sample(all_combos, combos_per_net - 1)
        for s, f in combos:
            sol = {"kind": s}
            if s == "given":
                sol.update(gen_given_solution(rng, net))
            fva = {"kind": f}
            if f == "float":
                fva["value"] = rng.choice([0.9, 0.9, 1.0, 0.5])
            elif f == "frame":
                fva["frame"] = gen_fva_frame(rng, net, sol.get("fluxes") if rng.random() < 0.8 else None)
            render = {"names": rng.random() < 0.3, "threshold": rng.choice([None, None, 0.5, 1e-3, 2000.0])}
            groups.append({"net": net, "solution": sol, "fva": fva, "render": render, "targets": "all",
                           "seed": rng.randrange(1 << 30)})
    return groups


# ------------------------------------------------------------------ implementation side

def build_model(net):
    from cobra import Model, Reaction, Metabolite
    m = Model("n")
    # every third metabolite has no formula (the Metabolite default, common in SBML files), one has an empty one
    mets = {mid: Metabolite(mid, compartment=mid[-1], name="name of " + mid,
                            formula=None if i % 3 == 1 else ("" if i == 3 else "C%dH2" % (i + 1)))
            for i, mid in enumerate(net["mets"])}
    rs = []
    for r in net["rxns"]:
        x = Reaction(r["id"], name="name of " + r["id"], lower_bound=r["lb"], upper_bound=r["ub"])
        x.add_metabolites({mets[k]: float(F(c)) for k, c in r["mets"].items()})
        rs.append(x)
    m.add_reactions(rs)
    for mid, met in mets.items():      # metabolites used by no reaction are still part of the model
        if met not in m.metabolites:
            m.add_metabolites([met])
    m.objective = {m.reactions.get_by_id(k): v for k, v in net["objective"].items()}
    m.objective_direction = net["direction"]
    if net.get("tolerance"):
        m.tolerance = net["tolerance"]
    # Some models have a history that leaves the content as it is: a rolled-back block that removes reactions with
    # their orphaned metabolites, and a temporary reaction that was removed, added again inside a block and rolled back.
    import hashlib
    import json
    h = int(hashlib.sha1(json.dumps(net, sort_keys=True, default=str).encode()).hexdigest()[:6], 16) % 4
    if h == 1 and len(rs) >= 2:
        order = [r.id for r in m.reactions]
        morder = [x.id for x in m.metabolites]
        with m:
            m.remove_reactions(rs[:2], remove_orphans=True)
        if [r.id for r in m.reactions] != order:
            m.reactions.sort(key=lambda r: order.index(r.id))
        if [x.id for x in m.metabolites] != morder:
            m.metabolites.sort(key=lambda x: morder.index(x.id))
    elif h == 2 and len(m.metabolites) >= 2:
        tmp = Reaction("ZZ_tmp", lower_bound=0, upper_bound=5)
        m.add_reactions([tmp])
        tmp.add_metabolites({m.metabolites[0]: -1.0, m.metabolites[1]: 1.0})
        m.remove_reactions([tmp])
        with m:
            m.add_reactions([tmp])
    elif h == 3:
        # a metabolite that joined a reaction and left it again (coefficient back to zero), outside and inside a block
        for i, x in enumerate(rs[:3]):
            other = [y for y in m.metabolites if y not in x.metabolites]
            if not other:
                continue
            if i % 2 == 0:
                x.add_metabolites({other[0]: 2.0})
                x.subtract_metabolites({other[0]: 2.0})
            else:
                with m:
                    x.add_metabolites({other[0]: -1.0})
    return m


class Spy:
    """Wraps pfba / flux_variability_analysis as imported by the summary modules, recording what the
    summary asked for and what it got."""
    def __init__(self):
        import cobra.summary.model_summary as a
        import cobra.summary.metabolite_summary as b
        import cobra.summary.reaction_summary as c
        self.mods = [a, b, c]
        self.orig = [(mod, mod.pfba, mod.flux_variability_analysis) for mod in self.mods]
        self.calls = []
        for mod, p, f in self.orig:
            mod.pfba = self._wrap("pfba", p)
            mod.flux_variability_analysis = self._wrap("fva", f)

    def _wrap(self, name, fn):
        def w(*a, **k):
            out = fn(*a, **k)
            self.calls.append((name, a, k, out))
            return out
        return w

    def restore(self):
        for mod, p, f in self.orig:
            mod.pfba, mod.flux_variability_analysis = p, f


def fr(x):
    """float -> exact Fraction string; NaN -> None."""
    x = float(x)
    if math.isnan(x):
        return None
    if math.isinf(x):
        return "inf" if x > 0 else "-inf"
    return str(F(x))


def frame_rows(df, met_default=None):
    rows = []
    has_rng = "minimum" in df.columns
    for idx, row in df.iterrows():
        d = {"rxn": row["reaction"] if "reaction" in df.columns else idx,
             "met": row["metabolite"] if "metabolite" in df.columns else met_default,
             "factor": fr(row["factor"]) if "factor" in df.columns else None,
             "flux": fr(row["flux"]),
             "range": [fr(row["minimum"]), fr(row["maximum"])] if has_rng else None,
             "index": idx}
        if "percent" in df.columns:
            d["percent"] = fr(row["percent"])
        rows.append(d)
    return rows


def run_group(group):
    """Run every target of the group on the real implementation; returns a list of observation dicts."""
    import logging
    import warnings
    warnings.simplefilter("ignore")
    logging.disable(logging.CRITICAL)
    import pandas as pd
    import cobra
    from cobra import Solution
    cobra.Configuration().processes = 1
    net = group["net"]
    out = []
    model = build_model(net)
    rids = [r["id"] for r in net["rxns"]]
    sol_spec, fva_spec = group["solution"], group["fva"]
    base = {"net": net, "solution": sol_spec, "fva": fva_spec, "render": group["render"]}
    solution = None
    if sol_spec["kind"] == "optimize":
        solution = model.optimize()
        if solution.status != "optimal":
            return [dict(base, skipped="model not optimal (%s)" % solution.status)]
    elif sol_spec["kind"] == "given":
        fl = pd.Series({k: float(F(v)) for k, v in sol_spec["fluxes"].items()}, index=rids, dtype=float)
        ov = float(sum(F(v) * F(sol_spec["fluxes"][k]) for k, v in net["objective"].items()))
        solution = Solution(objective_value=ov, status="optimal", fluxes=fl)
    else:
        if model.slim_optimize() is None or model.solver.status != "optimal":
            return [dict(base, skipped="model not optimal (pfba default)")]
        # pFBA is documented for maximisation of a non-negative objective; keep what it accepts
    fva_arg = None
    if fva_spec["kind"] == "float":
        if model.slim_optimize() is None or model.solver.status != "optimal" or math.isnan(model.slim_optimize()):
            return [dict(base, skipped="model not optimal (fva float)")]
        fva_arg = float(fva_spec["value"])
    elif fva_spec["kind"] == "frame":
        fva_arg = pd.DataFrame({"minimum": {k: float(F(v[0])) for k, v in fva_spec["frame"].items()},
                                "maximum": {k: float(F(v[1])) for k, v in fva_spec["frame"].items()}})
    targets = group["targets"]
    if targets == "all":
        targets = [["model"]] + [["met", m] for m in net["mets"]] + [["rxn", r] for r in rids]
    spy = Spy()
    try:
        for t in targets:
            spy.calls.clear()
            ob = dict(base, target=t)
            try:
                if t[0] == "model":
                    s = model.summary(solution=solution, fva=fva_arg)
                elif t[0] == "met":
                    s = model.metabolites.get_by_id(t[1]).summary(solution=solution, fva=fva_arg)
                else:
                    s = model.reactions.get_by_id(t[1]).summary(solution=solution, fva=fva_arg)
            except Exception as e:  # construction itself failed
                ob["construct_error"] = "%s: %s" % (type(e).__name__, str(e)[:200])
                out.append(ob)
                continue
            # what the summary asked pfba / FVA for
            proto = []
            used_sol = solution
            used_fva = fva_arg if fva_spec["kind"] == "frame" else None
            pf = [c for c in spy.calls if c[0] == "pfba"]
            fv = [c for c in spy.calls if c[0] == "fva"]
            if sol_spec["kind"] == "pfba":
                if len(pf) != 1 or not (pf[0][1][:1] == (model,) or pf[0][2].get("model") is model):
                    proto.append("pfba called %d times for solution=None" % len(pf))
                else:
                    used_sol = pf[0][3]
            elif pf:
                proto.append("pfba called although a solution was given")
            if fva_spec["kind"] == "float":
                if len(fv) != 1:
                    proto.append("FVA called %d times for fva=float" % len(fv))
                else:
                    a, k = fv[0][1], fv[0][2]
                    rl = k.get("reaction_list", a[1] if len(a) > 1 else None)
                    fo = k.get("fraction_of_optimum", a[3] if len(a) > 3 else 1.0)
                    got = sorted(x if isinstance(x, str) else x.id for x in (rl or model.reactions))
                    if t[0] == "model":
                        want = sorted(r.id for r in model.reactions if len(r.metabolites) == 1)
                    elif t[0] == "met":
                        want = sorted(r.id for r in model.metabolites.get_by_id(t[1]).reactions)
                    else:
                        want = [t[1]]
                    if not want:     # empty reaction_list: FVA falls back to every reaction
                        want = sorted(r.id for r in model.reactions)
                    if got != want:
                        proto.append("FVA asked for %s, expected %s" % (got, want))
                    if fo != fva_arg:
                        proto.append("FVA fraction_of_optimum %r, expected %r" % (fo, fva_arg))
                    used_fva = fv[0][3]
            elif fv:
                proto.append("FVA called although fva was %s" % fva_spec["kind"])
            ob["protocol"] = proto
            if used_sol is None:
                out.append(ob)
                continue
            ob["used_solution"] = {k: fr(used_sol.fluxes[k]) for k in rids}
            ob["used_fva"] = None if used_fva is None else {
                k: [fr(used_fva.at[k, "minimum"]), fr(used_fva.at[k, "maximum"])] for k in used_fva.index}
            ob["tolerance"] = fr(model.tolerance)
            # frames
            try:
                frame = s.to_frame()
                if t[0] == "model":
                    ob["frame"] = frame_rows(frame)
                    ob["up"] = frame_rows(s.uptake_flux)
                    ob["sec"] = frame_rows(s.secretion_flux)
                    ob["objective_value"] = fr(s._objective_value)
                elif t[0] == "met":
                    ob["frame"] = frame_rows(frame, t[1])
                    ob["prod"] = frame_rows(s.producing_flux, t[1])
                    ob["cons"] = frame_rows(s.consuming_flux, t[1])
                else:
                    ob["flux"] = fr(frame.at[t[1], "flux"])
                    ob["range"] = [fr(frame.at[t[1], "minimum"]), fr(frame.at[t[1], "maximum"])] \
                        if "minimum" in frame.columns else "absent"
                    ob["n_rows"] = len(frame)
            except Exception as e:
                ob["frame_error"] = "%s: %s" % (type(e).__name__, str(e)[:200])
            # renderings
            errs = []
            rd = group["render"]
            for label, fn in (("to_string", lambda: s.to_string()), ("to_html", lambda: s.to_html()),
                              ("to_frame", lambda: s.to_frame()), ("str", lambda: str(s)),
                              ("_repr_html_", lambda: s._repr_html_()),
                              ("to_string(names,threshold)",
                               lambda: s.to_string(names=rd["names"], threshold=rd["threshold"])),
                              ("to_html(names,threshold)",
                               lambda: s.to_html(names=rd["names"], threshold=rd["threshold"]))):
                try:
                    r = fn()
                    if label != "to_frame" and not (isinstance(r, str) and r):
                        errs.append([label, "NotAString", repr(type(r))])
                except Exception as e:
                    errs.append([label, type(e).__name__, str(e)[:120]])
            # a display threshold below the model tolerance is documented to be replaced by the tolerance
            try:
                with warnings.catch_warnings():
                    warnings.simplefilter("ignore")
                    tol = float(model.tolerance)
                    for tiny in (0.0, tol / 1000.0):
                        if s.to_string(threshold=tiny) != s.to_string(threshold=tol):
                            errs.append(["to_string(threshold=%r)" % tiny, "DiffersFromTolerance",
                                         "rendering with a threshold below the tolerance differs from the one at the tolerance"])
                            break
            except Exception as e:
                errs.append(["to_string(threshold below tolerance)", type(e).__name__, str(e)[:120]])
            ob["render_errors"] = errs
            out.append(ob)
    finally:
        spy.restore()
    return out


# ------------------------------------------------------------------ Coq terms

def q(s):
    f = F(s)
    return Raw("(%d # %d)" % (f.numerator, f.denominator))


def optq(s):
    return Raw("None") if s is None else Some(q(s))


def codes_of(net):
    rc = {rid: i for i, rid in enumerate(sorted(r["id"] for r in net["rxns"]))}   # str order = code order
    mc = {mid: i for i, mid in enumerate(net["mets"])}
    return rc, mc


def finite(*vals):
    return all(v is not None and v not in ("inf", "-inf") for v in vals)


def srow_term(row, rc, mc):
    rng = row["range"]
    if rng is not None and not finite(*rng):
        raise ValueError("non-finite range")
    if not finite(row["flux"]):
        raise ValueError("non-finite flux")
    return C("mkRow", rc[row["rxn"]], mc.get(row["met"], 0), q(row["factor"] or "0"), q(row["flux"]),
             Raw("None") if rng is None else Some((q(rng[0]), q(rng[1]))))


def case_term(ob):
    """Coq `case` for one observation, or None when the observation has no frames (handled in Python)."""
    net = ob["net"]
    rc, mc = codes_of(net)
    exact = ob["solution"]["kind"] == "given" and ob["fva"]["kind"] in ("none", "frame")
    eps = Raw("0") if exact else Raw("(1 # 1000000000)")
    rxns = [C("mkR", rc[r["id"]], [(mc[m], q(c)) for m, c in r["mets"].items()]) for r in net["rxns"]]
    sol = [(rc[k], q(v)) for k, v in ob["used_solution"].items()]
    obj = [(rc[k], q(v)) for k, v in net["objective"].items()]
    fva = Raw("None") if ob["used_fva"] is None else Some(
        [(rc[k], (q(v[0]), q(v[1]))) for k, v in ob["used_fva"].items() if k in rc])
    t = ob["target"]

    def by_id(rows):      # the property does not fix the row order: canonical order = identifier order
        return sorted(rows, key=lambda r: rc[r["rxn"]])
    if t[0] == "model":
        o = C("ObsModel", [srow_term(r, rc, mc) for r in by_id(ob["frame"])],
              [srow_term(r, rc, mc) for r in by_id(ob["up"])],
              [srow_term(r, rc, mc) for r in by_id(ob["sec"])], optq(ob["objective_value"]))
    elif t[0] == "met":
        def prow(r):
            return C("mkP", srow_term(r, rc, mc), optq(r["percent"]))
        o = C("ObsMet", mc[t[1]], [srow_term(r, rc, mc) for r in by_id(ob["frame"])],
              [prow(r) for r in by_id(ob["prod"])], [prow(r) for r in by_id(ob["cons"])])
    else:
        rg = ob["range"]
        if rg == "absent":                       # no fva: no minimum / maximum columns
            rgt = Raw("None")
        elif rg[0] is None and rg[1] is None:    # NaN, NaN: the reaction has no row in the supplied frame
            rgt = Some(Raw("None"))
        elif not finite(*rg):
            raise ValueError("non-finite range")
        else:
            rgt = Some(Some((q(rg[0]), q(rg[1]))))
        o = C("ObsRxn", rc[t[1]], q(ob["flux"]), rgt)
    return coq(C("mkCase", q(ob["tolerance"]), eps, rxns, sol, obj, fva, not ob["render_errors"], o))


HEADER = """From Coq Require Import ZArith List Bool QArith.
From Cobra.Summary Require Import Model Check.
Import ListNotations.
Open Scope Q_scope."""


# ------------------------------------------------------------------ evaluate

def python_side_codes(ob):
    """Failures decided outside Coq (no frames to hand over, or protocol)."""
    codes = []
    if "construct_error" in ob:
        codes.append(7)
    if ob.get("protocol"):
        codes.append(9)
    if "frame_error" in ob:
        codes.append(7)
    if "frame" in ob:
        # index of every frame is the reaction id, one row per listed reaction
        for key in ("frame", "up", "sec", "prod", "cons"):
            for r in ob.get(key, []):
                if r["index"] != r["rxn"]:
                    codes.append(1)
    if ob["target"][0] == "rxn" and ob.get("n_rows", 1) != 1:
        codes.append(1)
    return sorted(set(codes))


def evaluate(groups, jobs=None):
    """Run implementation (process pool) + model (coqc).  Returns (observations, {obs index: codes}, faults)."""
    from concurrent.futures import ProcessPoolExecutor
    jobs = jobs or min(K.JOBS, 8)
    if len(groups) > 1 and jobs > 1:
        import cobra.summary  # noqa: F401
        per = [v if k == "ok" else [] for k, v in
               K.map_isolated(run_group, groups, chunk=max(1, len(groups) // (jobs * 4)), workers=jobs)]
    else:
        per = [run_group(g) for g in groups]
    obs = [o for lst in per for o in lst]
    failing = {}
    terms, idx = [], []
    for i, ob in enumerate(obs):
        if "skipped" in ob:
            continue
        pc = python_side_codes(ob)
        if pc:
            failing[i] = pc
        if "used_solution" in ob and "frame_error" not in ob and "construct_error" not in ob:
            try:
                terms.append(case_term(ob))
                idx.append(i)
            except ValueError:
                ob["skipped_model"] = "non-finite value in a frame"
    res, faults = K.coq_eval_cases(HEADER, terms, "case", "failing", shard=120)
    for j, lst in res:
        i = idx[j]
        failing[i] = sorted(set(failing.get(i, []) + [code for _, code in lst]))
    return obs, failing, faults


def to_group(ob):
    return {"net": ob["net"], "solution": ob["solution"], "fva": ob["fva"], "render": ob["render"],
            "targets": [ob["target"]], "seed": 0}


def shrink(ob, codes):
    """Remove reactions / metabolites not needed for the failure (re-running both sides each round)."""
    want = set(codes)
    cur = to_group(ob)

    def fails(gs):
        o, f, faults = evaluate(gs, jobs=1)
        if faults:
            return set()
        # observation index -> group index (one target per group, skipped groups give one entry)
        bad, k = set(), 0
        for gi, g in enumerate(gs):
            if k in f and want & set(f[k]):
                bad.add(gi)
            k += 1
        return bad
    for _ in range(6):
        net = cur["net"]
        cands = []
        tgt = cur["targets"][0]
        for i, r in enumerate(net["rxns"]):
            if tgt[0] == "rxn" and r["id"] == tgt[1]:
                continue
            if len(net["rxns"]) <= 1:
                continue
            n2 = dict(net, rxns=net["rxns"][:i] + net["rxns"][i + 1:],
                      objective={k: v for k, v in net["objective"].items() if k != r["id"]})
            if not n2["objective"]:
                continue
            g = dict(cur, net=n2)
            if cur["solution"]["kind"] == "given":
                g["solution"] = dict(cur["solution"], fluxes={k: v for k, v in cur["solution"]["fluxes"].items()
                                                              if k != r["id"]})
            if cur["fva"]["kind"] == "frame":
                g["fva"] = dict(cur["fva"], frame={k: v for k, v in cur["fva"]["frame"].items() if k != r["id"]})
            cands.append(g)
        if not cands:
            break
        try:
            bad = fails(cands)
        except Exception:
            break
        if not bad:
            break
        cur = cands[min(bad)]
    return cur


def signature(ob, codes):
    sig = {"target": ob["target"][0], "code": min(codes), "solution": ob["solution"]["kind"],
           "fva": ob["fva"]["kind"]}
    if 7 in codes:
        errs = ob.get("render_errors") or []
        sig["code"] = 7
        sig["exc"] = errs[0][1] if errs else (ob.get("construct_error") or ob.get("frame_error") or "?").split(":")[0]
        sig["where"] = sorted({e[0].split("(")[0] for e in errs}) if errs else ["construct"]
        sig.pop("solution"), sig.pop("fva")
    return sig


def main(argv=None):
    args = K.parse_args(argv)
    rep = K.Reporter(PROP, args.tier, args.seed)
    info, broken = K.standard_prelude(PROP, rep, extra_targets=["theories/Summary/Check.vo"])
    rng = random.Random(args.seed)

    if args.replay:
        rp = json.load(open(args.replay))
        groups = [rp["case"]]
    else:
        groups = []
        corpus = os.path.join(K.VERIF, "corpus", PROP)
        if os.path.isdir(corpus):
            for f in sorted(os.listdir(corpus)):
                if f.endswith(".json"):
                    groups.append(json.load(open(os.path.join(corpus, f)))["case"])
        if args.tier == "quick":
            groups += gen_groups(rng, 60, 3)
        else:
            groups += gen_groups(rng, 500, 9)

    obs, failing, faults = evaluate(groups)
    if faults:
        print("HARNESS FAULT: model evaluation failed:\n" + "\n".join(faults[:3]))
        if not broken:
            broken.append("model evaluation (coqc on generated cases) failed: " + faults[0][-600:])

    dist = {"target": {}, "solution": {}, "fva": {}, "skipped": {}, "exact_regime": 0, "steady_given": 0,
            "rows_zeroed_below_tolerance": 0, "negative_factor_rows": 0, "nan_percent_sides": 0,
            "partial_fva_frames": 0}
    nontrivial = set()
    n_eval = 0
    for ob in obs:
        if "skipped" in ob:
            dist["skipped"][ob["skipped"]] = dist["skipped"].get(ob["skipped"], 0) + 1
            continue
        n_eval += 1
        for k, v in (("target", ob["target"][0]), ("solution", ob["solution"]["kind"]), ("fva", ob["fva"]["kind"])):
            dist[k][v] = dist[k].get(v, 0) + 1
        if ob["solution"]["kind"] == "given" and ob["fva"]["kind"] != "float":
            dist["exact_regime"] += 1
        if ob["solution"].get("steady"):
            dist["steady_given"] += 1
        if ob["fva"]["kind"] == "frame" and len(ob["fva"]["frame"]) < len(ob["net"]["rxns"]):
            dist["partial_fva_frames"] += 1
        rows = ob.get("frame") or []
        for r in rows:
            if r["factor"] is not None and F(r["factor"]) < 0:
                dist["negative_factor_rows"] += 1
            if r["flux"] == "0" and F(ob["used_solution"][r["rxn"]]) != 0:
                dist["rows_zeroed_below_tolerance"] += 1
        for side in ("prod", "cons"):
            if ob.get(side) and all(r["percent"] is None for r in ob[side]):
                dist["nan_percent_sides"] += 1
        if any(F(r["flux"]) != 0 for r in rows if r["flux"] not in (None, "inf", "-inf")) or ob["target"][0] == "rxn":
            nontrivial.add(json.dumps([ob["net"], ob["solution"], ob["fva"], ob["target"]], sort_keys=True))

    seen = set()
    for i in sorted(failing):
        ob, codes = obs[i], failing[i]
        # property monitors take precedence over plain disagreement
        want = [c for c in codes if c != 1] or [1]
        sig0 = signature(ob, want)
        key = json.dumps(sig0, sort_keys=True)
        if key in seen or len(seen) >= 10:
            continue
        seen.add(key)
        small = shrink(ob, want) if not args.replay else to_group(ob)
        obs2, f2, _ = evaluate([small], jobs=1)
        ob2, codes2 = (obs2[0], f2.get(0, codes)) if obs2 and "skipped" not in obs2[0] else (ob, codes)
        want2 = [c for c in codes2 if c != 1] or [1]
        replay = {"case": small, "failed": [CODES[c] for c in want2], "codes": codes2,
                  "implementation_observation": {k: v for k, v in ob2.items() if k not in ("net",)},
                  "how_to_read": "numbers are exact fractions of the doubles; case = network spec + solution kind "
                                 "(given fluxes / optimize / pfba default) + fva kind + one target summary",
                  "theorem": "coq/theories/Properties/C20.v; monitor codes in coq/theories/Summary/Check.v"}
        rep.violation(signature(ob2, want2), replay)

    if broken and rep.violations == 0:
        rep.violation({"broken": True}, {"broken_obligations": broken,
                      "note": "proof obligation, source-skeleton tie (Gen/SummaryGen.v) or correspondence machinery no "
                              "longer checks; no failing input found"}, no_input=True)

    def brief(ob):
        return {k: ob.get(k) for k in ("target", "solution", "fva", "frame", "up", "sec", "prod", "cons", "flux")
                if ob.get(k) is not None}
    live = [o for o in obs if "skipped" not in o]
    samples = [brief(live[j]) for j in ([0, len(live) // 2, len(live) - 1] if live else [])]
    evidence = {
        "level": "proof",
        "coverage": {
            "obligations": info["obligations"], "discharged": info["discharged"],
            "checker_cmd": info["checker_cmd"],
            "trusted_base": K.TRUSTED_COMMON + [
                "pandas / numpy frame semantics (join, where, loc, boolean masks) as modelled in Summary/Model.v",
                "harness/tables_summary.py (ast reader of the comparison / scaling skeleton of _generate)",
                "pfba / flux_variability_analysis results are captured by wrapping the names imported by the summary "
                "modules; their correctness is C09 / C05, not C20",
                "rendering to text / HTML is only checked not to raise"],
            "axioms_reported_by_Print_Assumptions": info["axioms"],
            "evaluations": n_eval, "distinct_nontrivial": len(nontrivial),
            "rule": "one evaluation = one summary object (model / metabolite / reaction) built by the real code for "
                    "a (network, solution, fva) triple, its frames compared with the Coq model and the Coq monitors, "
                    "and 7 rendering calls; non-trivial = some listed flux is non-zero (or a reaction summary); "
                    "distinct = distinct (network, solution, fva, target)",
            "samples": samples,
            "traces_validated_against_impl": n_eval - len(failing),
            "disagreements_checked": len(failing),
            "exhaustive": False,
            "networks": len({json.dumps(g["net"], sort_keys=True) for g in groups}),
            "input_distribution": dist,
            "broken_obligations": broken,
        },
        "assumptions": ["pandas text/HTML formatting is outside the model (monitored: no exception, non-empty string)",
                        "IEEE rounding: exact comparison only in the dyadic regime (given solution, fva none/frame); "
                        "otherwise 1e-9 relative with a threshold envelope",
                        "reaction identifiers are compared through their str sort order"],
    }
    return rep.finish(evidence)


if __name__ == "__main__":
    sys.exit(main())
