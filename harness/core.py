"""Shared harness of the Core checks (C01 solver sync, C02 cross references / documented effect,
C03 context restoration): history generator, runner on the real cobra Model, full observation
(Python objects + raw GLPK problem through swiglpk), Coq term printer.

Case (JSON-able): {"ops": [[name, args...], ...], "solver": "glpk"|"glpk_exact"}.  Reactions are "R<k>",
metabolites "M<k>"; numbers are strings "p/q" | "inf" | "-inf".
The generator executes the ops on the real implementation while it draws them (it needs to know what is
in the model to draw mostly-valid arguments); the recorded op list is self-contained and replays exactly."""
import math
import os
import sys
import warnings
from fractions import Fraction as F

sys.path.insert(0, os.path.dirname(os.path.abspath(__file__)))
import common as K  # noqa: E402
import obsmodel  # noqa: E402

sys.path.insert(0, os.path.join(K.REPO, "src"))
import logging  # noqa: E402
logging.getLogger("cobra").setLevel(logging.ERROR)   # 'Ignoring reaction ... since it already exists' is expected

HEADER = """From Coq Require Import ZArith QArith Qcanon List Bool.
From Cobra.Core Require Import Model Check.
Import ListNotations.
Open Scope Z_scope."""
CASE_TYPE = "obs * list (op * obs)"
EXTRA_TARGETS = ["theories/Core/Check.vo"]
CODES = {1: "model and implementation differ", 2: "solver problem is not the flux-balance problem of the model content (C01)",
         3: "cross references inconsistent (C02)", 4: "model not restored after leaving the context (C03)",
         5: "__exit__ raised (C03)",
         7: "an edit documented to raise did not raise that exception, or changed something (C02)"}


# ------------------------------------------------------------------ numbers
def fnum(s):
    if s == "inf":
        return float("inf")
    if s == "-inf":
        return float("-inf")
    return float(F(s))


def qc(v):
    v = F(v)
    return "(Q2Qc (%d # %d))" % (v.numerator, v.denominator)


def eb(s):
    if s == "inf":
        return "PInf"
    if s == "-inf":
        return "NInf"
    return "(Fn %s)" % qc(s)


def ebf(x):
    if x is None:
        return None
    if math.isinf(x):
        return "inf" if x > 0 else "-inf"
    f = F(float(x))
    return "%d/%d" % (f.numerator, f.denominator)


def stl(l):
    return "[" + "; ".join("(%d, %s)" % (m, qc(c)) for m, c in l) + "]"


def op_term(o):
    n, a = o[0], o[1:]
    b = lambda x: "true" if x else "false"  # noqa
    if n == "NewRxn":
        return "(NewRxn %d %s %s %s)" % (a[0], eb(a[1]), eb(a[2]), stl(a[3]))
    if n == "AddRxn":
        return "(AddRxn %d)" % a[0]
    if n == "RemoveRxn":
        return "(RemoveRxn %d %s)" % (a[0], b(a[1]))
    if n == "AddMet":
        return "(AddMet %d)" % a[0]
    if n == "RemoveMet":
        return "(RemoveMet %d %s)" % (a[0], b(a[1]))
    if n == "SetBounds":
        return "(SetBounds %d %s %s)" % (a[0], eb(a[1]), eb(a[2]))
    if n in ("SetLb", "SetUb"):
        return "(%s %d %s)" % (n, a[0], eb(a[1]))
    if n == "KnockOut":
        return "(KnockOut %d)" % a[0]
    if n in ("AddSt", "SubSt"):
        return "(%s %d %s %s)" % (n, a[0], stl(a[1]), b(a[2]))
    if n == "SetObj":
        return "(SetObj %s)" % stl(a[0])
    if n == "SetObjCoef":
        return "(SetObjCoef %d %s)" % (a[0], qc(a[1]))
    if n == "SetDir":
        return "(SetDir %s)" % b(a[0] == "max")
    if n == "Imul":
        return "(Imul %d %s)" % (a[0], qc(a[1]))
    if n in ("Enter", "Exit"):
        return n
    raise ValueError(n)


# ------------------------------------------------------------------ implementation runner
class InvalidCase(Exception):
    pass


class Impl:
    strict = True      # C03 scope rule; set to False by the C01 / C02 checks

    def __init__(self, solver="glpk", nr=6, nm=6):
        import cobra
        self.cobra = cobra
        self.model = cobra.Model("core")
        self.model.solver = solver
        self.nr, self.nm = nr, nm
        self.rx = {}            # k -> Reaction object (one per id)
        self.mt = {}            # k -> Metabolite object that is / was the model's
        self.block = set()      # reactions that were in the model at some point of the open outermost block

    def met_for(self, m, in_model_reaction):
        """The metabolite object to use as a key: the model's own object when it is in the model and the
        reaction is in the model, otherwise a fresh object."""
        mid = "M%d" % m
        if in_model_reaction and mid in self.model.metabolites:
            return self.model.metabolites.get_by_id(mid)
        return self.cobra.Metabolite(mid, compartment="c")

    def foreign(self, m):
        if getattr(self, "other", None) is None:
            self.other = self.cobra.Model("other")
            self.other.add_metabolites([self.cobra.Metabolite("M%d" % i, compartment="c") for i in range(max(self.nm, 8))])
        return self.other.metabolites.get_by_id("M%d" % m)

    def expect_raise(self, o):
        """Identifier keys are documented to raise (ValueError: the reaction has no model; KeyError: no such metabolite in
        the model) -- the Gallina op has no key shapes, so such a step is not given to the model: it must raise that
        exception and change nothing (harness-side monitor, code 7)."""
        if o[0] == "AddMet" and len(o) > 2 and o[2] in ("dup", "badid"):
            return "RaiseValueError"
        if o[0] in ("AddSt", "SubSt") and len(o) > 4 and o[4] == "id":
            r = self.rx.get(o[1])
            if r is None:
                return None
            have = {m.id for m in r._metabolites}
            for m, _ in o[2]:
                mid = "M%d" % m
                if mid in have:
                    continue
                if r._model is None:
                    return "RaiseValueError"
                if mid not in r._model.metabolites:
                    return "RaiseKeyError"
        return None

    EDITS = ("SetBounds", "SetLb", "SetUb", "KnockOut", "AddSt", "SubSt", "Imul")

    def in_scope(self, o):
        """C03 scope rule: inside a context only reactions that are in the model (or that never were, during the
        open outermost block) may be edited -- an object outside the model cannot see the model's context, so its
        edits are not recorded and the block could not restore it when it re-adds the object."""
        if len(self.model._contexts) > 0 and o[0] in self.EDITS:
            r = self.rx.get(o[1])
            if r is not None and r._model is not self.model and o[1] in self.block:
                # C01 / C02 still allow bounds edits on such an object (the solver must be in sync once the block
                # re-adds it); stoichiometry edits would make the exit itself fail, which is C03's business
                if self.strict or o[0] in ("AddSt", "SubSt", "Imul"):
                    return False
        if o[0] in self.EDITS + ("AddRxn", "RemoveRxn", "SetObjCoef") and o[1] not in self.rx:
            return False
        if o[0] == "SetObj" and any(k not in self.rx for k, _ in o[1]):
            return False
        if o[0] == "RemoveMet" and ("M%d" % o[1]) not in self.model.metabolites:
            return False
        if o[0] == "AddMet" and len(o) > 2 and o[2] == "dup" and ("M%d" % o[1]) in self.model.metabolites:
            return False        # already present: both objects are filtered out, nothing is rejected
        if o[0] == "Exit" and len(self.model._contexts) == 0:
            return False
        return True

    def apply(self, o):
        if not self.in_scope(o):
            raise InvalidCase(str(o))
        res = self._apply(o)
        M = self.model
        if o[0] == "Exit" and res != "Ok" and not self.strict:
            # C01 / C02 allow bounds edits on objects that left the model inside the block; such edits are invisible
            # to the context and can make the replayed undo functions raise (ValueError of the bounds check).  What
            # an aborted __exit__ leaves behind is not modelled: the history ends before such an Exit.
            raise InvalidCase("exit raised after out-of-scope edits")
        now = {k for k, r in self.rx.items() if r._model is M}
        if len(M._contexts) == 0:
            self.block = set(now)
        else:
            self.block |= now
        return res

    def _apply(self, o):
        n, a = o[0], o[1:]
        M = self.model
        with warnings.catch_warnings():
            warnings.simplefilter("ignore")
            try:
                if n == "NewRxn":
                    r = self.cobra.Reaction("R%d" % a[0])
                    r.bounds = (fnum(a[1]), fnum(a[2]))
                    r.add_metabolites({self.met_for(m, False): float(F(c)) for m, c in a[3]})
                    self.rx[a[0]] = r
                elif n == "AddRxn":
                    M.add_reactions([self.rx[a[0]]])
                elif n == "RemoveRxn":
                    M.remove_reactions([self.rx[a[0]]], remove_orphans=bool(a[1]))
                elif n == "AddMet":
                    kind = a[1] if len(a) > 1 else "ok"
                    if kind == "dup":        # two different objects with one identifier: documented to be rejected
                        M.add_metabolites([self.cobra.Metabolite("M%d" % a[0], compartment="c"),
                                           self.cobra.Metabolite("M%d" % a[0], compartment="c")])
                    elif kind == "badid":    # an empty identifier after a valid one
                        M.add_metabolites([self.cobra.Metabolite("M%d" % a[0], compartment="c"),
                                           self.cobra.Metabolite("", compartment="c")])
                    else:
                        M.add_metabolites([self.cobra.Metabolite("M%d" % a[0], compartment="c")])
                elif n == "RemoveMet":
                    met = M.metabolites.get_by_id("M%d" % a[0])
                    if len(a) > 2 and a[2] == "pair":
                        # one call with TWO metabolites, the later one of model.metabolites first: a temporary metabolite
                        # is added (it is the last one) and removed together with `met` -- the same final content
                        tmp = self.cobra.Metabolite("ZZ_tmp_met", compartment="c")
                        M.add_metabolites([tmp])
                        M.remove_metabolites([tmp, met], destructive=bool(a[1]))
                    else:
                        M.remove_metabolites([met], destructive=bool(a[1]))
                elif n == "SetBounds":
                    self.rx[a[0]].bounds = (fnum(a[1]), fnum(a[2]))
                elif n == "SetLb":
                    self.rx[a[0]].lower_bound = fnum(a[1])
                elif n == "SetUb":
                    self.rx[a[0]].upper_bound = fnum(a[1])
                elif n == "KnockOut":
                    self.rx[a[0]].knock_out()
                elif n in ("AddSt", "SubSt"):
                    r = self.rx[a[0]]
                    shape = a[3] if len(a) > 3 else "obj"
                    if shape == "id":          # metabolite identifiers as keys
                        d = {"M%d" % m: float(F(c)) for m, c in a[1]}
                    elif shape == "foreign":   # metabolite objects that belong to another model (copied by cobrapy)
                        d = {self.foreign(m): float(F(c)) for m, c in a[1]}
                    else:
                        d = {self.met_for(m, r.model is M): float(F(c)) for m, c in a[1]}
                    if n == "AddSt":
                        r.add_metabolites(d, combine=bool(a[2]))
                    else:
                        r.subtract_metabolites(d, combine=bool(a[2]))
                elif n == "SetObj":
                    M.objective = {self.rx[k]: float(F(c)) for k, c in a[0]}
                elif n == "SetObjCoef":
                    r = self.rx[a[0]]
                    delta = (float(F(a[1])) - r.objective_coefficient - 1.0) if r.model is M else 0.0
                    if len(a) > 2 and a[2] == "additive" and delta != 0.0:
                        # the same edit through the documented additive form, right after the weight was edited through the
                        # setter (no read in between): the weight goes up by one, then an additive expression moves it to
                        # its new value
                        from cobra.util.solver import set_objective
                        r.objective_coefficient = r.objective_coefficient + 1.0
                        set_objective(M, delta * r.flux_expression, additive=True)
                    else:
                        r.objective_coefficient = float(F(a[1]))
                elif n == "SetDir":
                    M.objective_direction = a[0]
                elif n == "Imul":
                    r = self.rx[a[0]]
                    r *= float(F(a[1]))
                elif n == "Enter":
                    M.__enter__()
                elif n == "Exit":
                    M.__exit__(None, None, None)
                else:
                    raise RuntimeError("unknown op " + n)
                return "Ok"
            except ValueError:
                return "RaiseValueError"
            except KeyError:
                return "RaiseKeyError"
            except AttributeError:
                return "RaiseOther"
            except Exception as e:  # noqa
                return "RaiseOther:" + type(e).__name__

    # -------- observation
    def observe(self, res="Ok"):
        M = self.model
        rx = []
        for k in range(self.nr):
            r = self.rx.get(k)
            if r is None:
                rx.append({"id": k, "in": False, "lb": "0/1", "ub": "0/1", "st": []})
                continue
            inm = r._model is M and ("R%d" % k) in M.reactions and M.reactions.get_by_id("R%d" % k) is r
            st = sorted((int(m.id[1:]), ebf(c)) for m, c in r._metabolites.items())
            rx.append({"id": k, "in": bool(inm), "lb": ebf(r._lower_bound), "ub": ebf(r._upper_bound), "st": st,
                       "model_ptr_consistent": (r._model is M) == (("R%d" % k) in M.reactions)})
        mt = []
        for k in range(self.nm):
            mid = "M%d" % k
            if mid in M.metabolites:
                m = M.metabolites.get_by_id(mid)
                # A reaction outside the model that shares this very metabolite object (possible once a block that
                # adopted the reaction has been rolled back) keeps its registration; the model has one object per
                # identifier, so these are reported apart (C02 monitor, code 6) and not compared.
                det = sorted(int(r.id[1:]) for r in m._reaction
                             if r._model is not M and any(x is m for x in r._metabolites))
                # (listed in `back` as well: since the repair dd15391 no path of the generator makes two objects share a
                #  metabolite object, so a registration of a detached reaction is a stale back reference)
                back = sorted(int(r.id[1:]) for r in m._reaction)
                mt.append({"id": k, "in": True, "back": back, "model_ptr": m._model is M, "detached_back": det})
            else:
                mt.append({"id": k, "in": False, "back": []})
        try:
            raw = obsmodel.observe_raw(M)
            shape_ok = raw["column_names_unique"] and raw["row_names_unique"] and raw["constant"] in ("0/1", None)
        except Exception as e:  # noqa  -- e.g. optlang's pending removals refer to objects that are not in the problem
            raw = {"columns": [], "rows": [], "direction": "max", "observe_error": "%s: %s" % (type(e).__name__, e)}
            shape_ok = False
        names = {}
        for k, r in self.rx.items():
            names[r.id] = (k, False)
            names[r.reverse_id] = (k, True)
        cols, rows = [], []
        for c in raw["columns"]:
            if c["name"] not in names or c["kind"] != "continuous":
                shape_ok = False
                continue
            lo, hi = c["bounds"]
            cols.append({"name": names[c["name"]], "lb": "-inf" if lo is None else lo, "ub": "inf" if hi is None else hi,
                         "obj": c["obj"]})
        for rw in raw["rows"]:
            nm = rw["name"]
            if not (nm and nm[0] == "M" and nm[1:].isdigit()) or rw["bounds"] != ["0/1", "0/1"]:
                shape_ok = False
                continue
            coefs = []
            for cn, v in rw["coefficients"].items():
                if cn not in names:
                    shape_ok = False
                else:
                    coefs.append((names[cn], v))
            rows.append({"id": int(nm[1:]), "coefs": sorted(coefs)})
        # the optlang view must agree with the raw problem
        try:
            if len(M.variables) != len(raw["columns"]) or len(M.constraints) != len(raw["rows"]):
                shape_ok = False
            if M.objective.direction != raw["direction"]:
                shape_ok = False
        except Exception:
            shape_ok = False
        # what the model REPORTS as a reaction's objective coefficient must be what the solver holds (also for weights
        # below the solver tolerance): forward coefficient c and reverse coefficient -c  <->  reported c
        try:
            objc = {tuple(c["name"]): F(c["obj"]) for c in cols}
            for k, r in self.rx.items():
                if r._model is M and (k, False) in objc:
                    cf, cr = objc[(k, False)], objc.get((k, True), F(0))
                    want = cf if cf == -cr else F(0)
                    if F(r.objective_coefficient) != want:
                        shape_ok = False
        except Exception:  # noqa
            shape_ok = False
        return {"rx": rx, "mt": mt, "vars": cols, "cons": rows, "dir": raw["direction"],
                "depth": len(M._contexts), "shape_ok": bool(shape_ok), "res": res}


def name_t(n):
    return "(%d, %s)" % (n[0], "true" if n[1] else "false")


def obs_term(o):
    rx = "[" + "; ".join("mkR %d %s %s %s %s" % (r["id"], "true" if r["in"] else "false", eb(r["lb"]), eb(r["ub"]),
                                                 stl(r["st"])) for r in o["rx"]) + "]"
    mt = "[" + "; ".join("mkM %d %s [%s]" % (m["id"], "true" if m["in"] else "false",
                                             "; ".join(str(x) for x in m["back"])) for m in o["mt"]) + "]"
    vs = "[" + "; ".join("mkV %s %s %s %s" % (name_t(v["name"]), eb(v["lb"]), eb(v["ub"]), qc(v["obj"]))
                         for v in o["vars"]) + "]"
    cs = "[" + "; ".join("mkC %d [%s]" % (c["id"], "; ".join("(%s, %s)" % (name_t(n), qc(v)) for n, v in c["coefs"]))
                         for c in o["cons"]) + "]"
    res = o["res"] if o["res"] in ("Ok", "RaiseValueError", "RaiseKeyError") else "RaiseOther"
    return "(mkO %s %s %s %s %s %d %s %s)" % (rx, mt, vs, cs, "true" if o["dir"] == "max" else "false", o["depth"],
                                              "true" if o["shape_ok"] else "false", res)


def run_case(case):
    """Execute a recorded case on the real implementation; returns (obs0, [obs after each op])."""
    nr, nm = universe(case)
    im = Impl(case.get("solver", "glpk"), nr, nm)
    obs0 = im.observe()
    steps = []
    prev = obs0
    for o in case["ops"]:
        exp = im.expect_raise(o)
        res = im.apply(o)
        ob = im.observe(res)
        if exp is not None:
            # not a step of the Gallina model: checked here (code 7) and left out of the Coq term
            ob["skip"] = True
            bad = []
            if res != exp:
                bad.append("expected %s, got %s" % (exp, res))
            if _content(ob) != _content(prev):
                bad.append("the raising operation changed the model or the reaction")
            ob["py_fail"] = bad
        steps.append(ob)
        prev = ob
    return obs0, steps


def _content(ob):
    return {k: v for k, v in ob.items() if k not in ("res", "skip", "py_fail")}


def universe(case):
    nr, nm = 1, 1
    for o in case["ops"]:
        n, a = o[0], o[1:]
        if n in ("NewRxn", "AddRxn", "RemoveRxn", "SetBounds", "SetLb", "SetUb", "KnockOut", "AddSt", "SubSt",
                 "SetObjCoef", "Imul"):
            nr = max(nr, a[0] + 1)
        if n in ("AddMet", "RemoveMet"):
            nm = max(nm, a[0] + 1)
        if n == "NewRxn":
            for m, _ in a[3]:
                nm = max(nm, m + 1)
        if n in ("AddSt", "SubSt"):
            for m, _ in a[1]:
                nm = max(nm, m + 1)
        if n == "SetObj":
            for k, _ in a[0]:
                nr = max(nr, k + 1)
    return nr, nm


def case_term(case):
    obs0, steps = run_case(case)
    t = "(%s, [%s])" % (obs_term(obs0), "; ".join("(%s, %s)" % (op_term(o), obs_term(s))
                                                  for o, s in zip(case["ops"], steps) if not s.get("skip")))
    return t, (obs0, steps)


# ------------------------------------------------------------------ generator
COEF = ["1", "1", "-1", "-1", "2", "-2", "1/2", "-1/2", "3"]
BND = ["0", "0", "1", "5", "10", "1000", "-1", "-5", "-10", "-1000", "inf", "-inf", "1/2"]


def gen_history(rng, length, solver="glpk", ctx_p=0.12, max_depth=3, fail_p=0.15, nr=6, nm=6, weights=None):
    """Draw a history while executing it on the real implementation."""
    im = Impl(solver, nr, nm)
    M = im.model
    ops = []
    removed_m, removed_r, pending, dead = set(), set(), set(), set()
    W = {"NewRxn": 10, "AddRxn": 12, "RemoveRxn": 5, "AddMet": 4, "RemoveMet": 4, "SetBounds": 8, "SetLb": 4, "SetUb": 4,
         "KnockOut": 3, "AddSt": 9, "SubSt": 4, "SetObj": 4, "SetObjCoef": 4, "SetDir": 3, "Imul": 4, "Enter": 6,
         "Exit": 6}
    if weights:
        W.update(weights)
    names = [n for n, w in W.items() for _ in range(w)]

    def in_model_r():
        return [k for k, r in im.rx.items() if r._model is M]

    def mets_in():
        return [int(m.id[1:]) for m in M.metabolites if m.id[1:].isdigit()]

    def usable_mets():
        return [m for m in range(nm) if m not in removed_m]

    def bounds_pair(valid=True):
        a, b = rng.choice(BND), rng.choice(BND)
        fa, fb = fnum(a), fnum(b)
        if valid and fa > fb:
            a, b = b, a
        if valid and (a == "inf" or b == "-inf"):
            a, b = "0", "1000"
        return a, b

    def stoich(k=None):
        ms = usable_mets()
        if not ms:
            return []
        cnt = min(len(ms), rng.randrange(1, 4))
        return [[m, rng.choice(COEF)] for m in rng.sample(ms, cnt)]

    guard = 0
    while len(ops) < length and guard < length * 20:
        guard += 1
        n = rng.choice(names)
        depth = len(M._contexts)
        o = None
        if n == "NewRxn":
            free = [k for k in range(nr) if k not in im.rx]
            if free:
                l, u = bounds_pair()
                st = stoich()
                if st:
                    o = ["NewRxn", free[0], l, u, st]
        elif n == "AddRxn":
            c = [k for k in pending if k not in dead and
                 not any(int(m.id[1:]) in removed_m for m in im.rx[k]._metabolites)]
            # a reaction that was removed earlier may be added again (the same object, whose keys are the model's
            # own - possibly removed - metabolite objects)
            # (inside a block only a reaction that was removed BEFORE the outermost block: the scope rule)
            back_again = [k for k in removed_r if im.rx[k]._model is not M and (depth == 0 or k not in im.block)]
            if back_again and rng.random() < 0.5:
                o = ["AddRxn", rng.choice(back_again)]
            elif c:
                o = ["AddRxn", rng.choice(c)]
            elif in_model_r() and rng.random() < 0.1:
                o = ["AddRxn", rng.choice(in_model_r())]        # already there: ignored
        elif n == "RemoveRxn":
            c = in_model_r()
            if c:
                o = ["RemoveRxn", rng.choice(c), rng.random() < 0.4]
        elif n == "AddMet":
            c = [m for m in usable_mets() if m not in mets_in()]
            if c:
                o = ["AddMet", rng.choice(c)]
                if rng.random() < fail_p:
                    o.append(rng.choice(["dup", "badid"]))      # rejected additions (ValueError, nothing changes)
        elif n == "RemoveMet":
            c = mets_in()
            if c:
                o = ["RemoveMet", rng.choice(c), rng.random() < 0.35]
                if rng.random() < 0.4:
                    o.append("pair")
        elif n in ("SetBounds", "SetLb", "SetUb", "KnockOut"):
            c = list(im.rx)
            if c:
                k = rng.choice(c)
                if n == "SetBounds":
                    l, u = bounds_pair(valid=rng.random() > fail_p)
                    o = [n, k, l, u]
                elif n == "KnockOut":
                    o = [n, k]
                else:
                    o = [n, k, rng.choice(BND)]
        elif n in ("AddSt", "SubSt"):
            c = list(im.rx)      # incl. reactions that were removed from the model (scope rule applies inside blocks)
            if c:
                k = rng.choice(c)
                st = stoich()
                if st:
                    o = [n, k, st, rng.random() < 0.7, rng.choice(["obj"] * 6 + ["id"] * 3 + ["foreign"] * 2)]
                    if o[4] == "id" and im.expect_raise(o) is not None and rng.random() >= fail_p * 2:
                        o[4] = "obj"      # mostly valid identifier keys
        elif n == "SetObj":
            c = in_model_r()
            if rng.random() < fail_p:
                c = list(im.rx)                 # may include a reaction that is not in the model: raises part-way
            if c:
                ks = rng.sample(c, min(len(c), rng.randrange(1, 3)))
                o = ["SetObj", [[k, rng.choice(["1", "1", "-1", "2", "1/2"])] for k in ks]]
        elif n == "SetObjCoef":
            c = in_model_r()
            if rng.random() < fail_p:
                c = list(im.rx)
            if c:
                o = ["SetObjCoef", rng.choice(c), rng.choice(["1", "0", "-1", "2", "1/2", "1/33554432", "-1/33554432"])]
                if rng.random() < 0.5:
                    o.append("additive")
        elif n == "SetDir":
            o = ["SetDir", rng.choice(["max", "min"])]
        elif n == "Imul":
            c = [k for k in im.rx]
            if c:
                o = ["Imul", rng.choice(c), rng.choice(["2", "1/2", "-1", "-2", "4"])]
        elif n == "Enter":
            if depth < max_depth and rng.random() < ctx_p * 8:
                o = ["Enter"]
        elif n == "Exit":
            if depth > 0:
                o = ["Exit"]
        if o is None:
            continue
        if not im.in_scope(o):
            continue
        before_m, before_r = set(mets_in()), set(in_model_r())
        try:
            im.apply(o)
        except InvalidCase:
            return {"ops": ops, "solver": solver}
        ops.append(o)
        if o[0] == "NewRxn":
            pending.add(o[1])
        if o[0] == "AddRxn":
            pending.discard(o[1])
        after_m, after_r = set(mets_in()), set(in_model_r())
        removed_m |= (before_m - after_m)
        removed_r |= (before_r - after_r)
    # close the open contexts so every block is checked
    while len(M._contexts) > 0:
        try:
            im.apply(["Exit"])
        except InvalidCase:
            break
        ops.append(["Exit"])
    return {"ops": ops, "solver": solver}


# ------------------------------------------------------------------ driver shared by c01 / c02 / c03
def valid_case(case):
    """A shrunk candidate must still be executable: every reaction an op mentions was created before."""
    made, added = set(), set()
    for o in case["ops"]:
        n, a = o[0], o[1:]
        if n == "NewRxn":
            if a[0] in made:
                return False
            made.add(a[0])
        elif n in ("AddRxn", "RemoveRxn", "SetBounds", "SetLb", "SetUb", "KnockOut", "AddSt", "SubSt", "SetObjCoef", "Imul"):
            if a[0] not in made:
                return False
        elif n == "SetObj":
            if any(k not in made for k, _ in a[0]):
                return False
    return True


def evaluate(cases):
    import json
    terms, impl, idx = [], [], []
    for i, c in enumerate(cases):
        try:
            t, ob = case_term(c)
        except InvalidCase:
            impl.append(None)
            continue
        terms.append(t)
        impl.append(ob)
        idx.append(i)
    res, faults = K.coq_eval_cases(HEADER, terms, CASE_TYPE, "failing", shard=40, timeout=1500)
    out = {}
    for i, lst in res:
        # Coq numbers the steps it was given; translate back to positions in the op list
        kept = [n + 1 for n, st in enumerate(impl[idx[i]][1]) if not st.get("skip")]
        out[idx[i]] = [((kept[s - 1] if 1 <= s <= len(kept) else s), code) for s, code in lst]
    for i, ob in enumerate(impl):
        if ob is None:
            continue
        extra = [(n + 1, 7) for n, st in enumerate(ob[1]) if st.get("py_fail")]
        if extra:
            out[i] = sorted(out.get(i, []) + extra)
    return out, faults, impl


def shrink(case, want):
    def fails(cs):
        cs = [c for c in cs if valid_case(c)]
        if not cs:
            return None
        try:
            r, f, _ = evaluate(cs)
        except Exception:
            return None
        if f:
            return None
        for i in sorted(r):
            if any(code in want for _, code in r[i]):
                return cs[i]
        return None
    cur = case
    # cut after the first failing step
    r, f, _ = evaluate([cur])
    if not f and 0 in r:
        first = min(s for s, code in r[0] if code in want)
        cur = {"ops": cur["ops"][:max(first, 1)], "solver": cur["solver"]}
    for _ in range(10):
        n = len(cur["ops"])
        cands = [{"ops": cur["ops"][:i] + cur["ops"][i + 1:], "solver": cur["solver"]} for i in range(n - 1)]
        # dropping an Enter needs its Exit dropped too
        for i, o in enumerate(cur["ops"]):
            if o[0] == "Enter":
                depth = 0
                for j in range(i, n):
                    if cur["ops"][j][0] == "Enter":
                        depth += 1
                    elif cur["ops"][j][0] == "Exit":
                        depth -= 1
                        if depth == 0:
                            cands.append({"ops": [x for t, x in enumerate(cur["ops"]) if t not in (i, j)],
                                          "solver": cur["solver"]})
                            break
        got = fails(cands)
        if got is None:
            break
        cur = got
    return cur


def main(prop, own_codes, gen_params, rule, manifest_trusted, argv=None, extra=None, extra_targets=()):
    """extra: callables run as fn(rep, args, rng) before the evidence is written (further kernels of the same
    property, e.g. harness/genes.py for C02); what they return is stored under coverage[<fn.__module__>_kernel].
    extra_targets: further .vo files they need."""
    import json
    Impl.strict = (prop == "C03")
    import random
    import time
    args = K.parse_args(argv)
    rep = K.Reporter(prop, args.tier, args.seed)
    info, broken = K.standard_prelude(prop, rep, extra_targets=EXTRA_TARGETS + list(extra_targets),
                                      whitelist=("FunctionalExtensionality.functional_extensionality_dep",))
    rng = random.Random(args.seed)
    t0 = time.time()
    if args.replay:
        data = json.load(open(args.replay))
        cases = [] if data.get("kernel") else [data["case"]]     # a replay of another kernel is run by `extra`
    else:
        cases = []
        corpus = os.path.join(K.VERIF, "corpus", prop)
        if os.path.isdir(corpus):
            for f in sorted(os.listdir(corpus)):
                if f.endswith(".json"):
                    cases.append(json.load(open(os.path.join(corpus, f)))["case"])
        n = gen_params["quick"] if args.tier == "quick" else gen_params["thorough"]
        for i in range(n):
            solver = "glpk_exact" if i % 4 == 3 else "glpk"
            L = rng.randrange(4, gen_params["len_quick" if args.tier == "quick" else "len_thorough"] + 1)
            cases.append(gen_history(rng, L, solver=solver, **gen_params.get("gen", {})))
    res, faults, impl = evaluate(cases)
    if faults:
        print("HARNESS FAULT: model evaluation failed:\n" + "\n".join(faults[:3]))
        broken.append("model evaluation (coqc on generated cases) failed: " + faults[0][-800:])
    want_all = set(own_codes) | {1}
    op_hist, res_hist, nontrivial, n_steps, n_blocks = {}, {}, set(), 0, 0
    n_invalid = sum(1 for ob in impl if ob is None)
    for c, ob in zip(cases, impl):
        if ob is None:          # outside the modelled domain (scope rule / aborted exit): not evaluated
            continue
        o0, steps = ob
        changed = False
        for o, s in zip(c["ops"], steps):
            op_hist[o[0]] = op_hist.get(o[0], 0) + 1
            res_hist[s["res"]] = res_hist.get(s["res"], 0) + 1
            n_steps += 1
            if o[0] == "Exit":
                n_blocks += 1
            if o[0] not in ("Enter", "Exit", "NewRxn"):
                changed = True
        if changed:
            nontrivial.add(json.dumps(c, sort_keys=True))
    seen = set()
    n_fail = 0
    for idx in sorted(res):
        codes = sorted({code for _, code in res[idx]})
        mine = [c for c in codes if c in want_all]
        if not mine:
            continue
        n_fail += 1
        want = [c for c in mine if c != 1] or [1]
        first = min(s for s, code in res[idx] if code in want)
        opname = cases[idx]["ops"][first - 1][0] if first >= 1 else "init"
        key = (tuple(want), opname)
        if key in seen or len(seen) >= 8:
            continue
        seen.add(key)
        small = cases[idx] if args.replay else shrink(cases[idx], set(want))
        r2, _, impl2 = evaluate([small])
        lst2 = r2.get(0, res[idx])
        codes2 = sorted({code for _, code in lst2})
        code = next((c for c in codes2 if c in own_codes), codes2[0] if codes2 else want[0])
        first2 = min([s for s, cc in lst2 if cc == code] or [0])
        last_op = small["ops"][first2 - 1] if first2 >= 1 else ["init"]
        sig = {"code": code, "op": last_op[0], "nested": sum(1 for o in small["ops"][:first2] if o[0] == "Enter") >= 2}
        replay = {"case": small, "failed": CODES.get(code, str(code)), "codes": codes2, "failing_steps": lst2,
                  "implementation_observation": {"initial": impl2[0][0], "after_each_op": impl2[0][1]},
                  "how_to_read": "ops use reaction k = 'R<k>', metabolite m = 'M<m>'; observations list every reaction "
                                 "object (in = belongs to the model), every metabolite (back = ids of m.reactions), the raw "
                                 "GLPK columns (name = [reaction, is_reverse]) and rows",
                  "theorem": "coq/theories/Properties/%s.v" % prop}
        rep.violation(sig, replay)
    if prop == "C02":
        # code 6 (harness-side monitor): a model metabolite lists a reaction object that is outside the model
        done6 = False
        for c, ob in zip(cases, impl):
            if ob is None or done6:
                continue
            for n, s in enumerate(ob[1]):
                det = [(m["id"], m["detached_back"]) for m in s["mt"] if m.get("detached_back")]
                if det:
                    small = {"ops": c["ops"][:n + 1], "solver": c["solver"]}
                    n_fail += 1
                    rep.violation({"code": 6, "op": c["ops"][n][0], "detached_back": True},
                                  {"case": small, "failed": "a model metabolite lists a reaction that is outside the model",
                                   "codes": [6], "metabolite_and_detached_reactions": det,
                                   "observation_after_last_op": s, "theorem": "coq/theories/Properties/C02.v"})
                    done6 = True
                    break
    extra_cov = {}
    for fn in (extra or []):
        extra_cov[fn.__module__ + "_kernel"] = fn(rep, args, rng)
    if broken and rep.violations == 0:      # a known finding (genes kernel) must not hide a broken obligation
        rep.violation({"broken": True}, {"broken_obligations": broken,
                      "note": "a proof obligation or the correspondence machinery no longer checks; no failing input found"},
                      no_input=True)
    evidence = {
        "level": "proof",
        "coverage": {
            "obligations": info["obligations"], "discharged": info["discharged"], "checker_cmd": info["checker_cmd"],
            "trusted_base": K.TRUSTED_COMMON + manifest_trusted,
            "axioms_reported_by_Print_Assumptions": info["axioms"],
            "evaluations": len(cases), "distinct_nontrivial": len(nontrivial), "rule": rule,
            "samples": [cases[i] for i in sorted({0, len(cases) // 2, len(cases) - 1})] if cases else [],
            "traces_validated_against_impl": len(cases) - n_fail, "disagreements_checked": n_fail,
            "steps_observed": n_steps, "histories_outside_domain": n_invalid, "context_blocks_closed": n_blocks, "exhaustive": False,
            "op_distribution": op_hist, "result_distribution": res_hist, "broken_obligations": broken,
            "run_s": round(time.time() - t0, 1),
        },
        "assumptions": ["one Python object per identifier (the generator never re-uses the id of a removed object)",
                        "genes, groups, renames, user constraints, copy/pickle, solver switch are outside the op kernel "
                        "of coq/theories/Core/Model.v"],
    }
    evidence["coverage"].update(extra_cov)
    return rep.finish(evidence)
