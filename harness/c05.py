"""C05 — flux variability analysis reports the true flux ranges.

Implementation side: cobra.flux_analysis.flux_variability_analysis (reaction subsets as ids or objects,
fraction_of_optimum, pfba_factor, loopless, processes) on generated networks.
Model side (coq/theories/FVA): the linear programs cobrapy builds (fva_lp, pfba_lp: forward/reverse
variables, fva_old_objective, flux_sum), proved to have the optimal values the specification asks for;
here every such problem gets an exact certificate (harness/lpexact.py searches, the proved checkers of
LP/Cert.v decide inside coqc) and the implementation's numbers are compared with the certified values.
Loopless ranges are additionally compared with an exact enumeration of the sign patterns of the
internal reactions (Python, exact rationals; not certified in Coq — loopless exactness is not a theorem)."""
import itertools
import math
import os
import sys
import warnings
from fractions import Fraction as F

sys.path.insert(0, os.path.dirname(os.path.abspath(__file__)))
import common as K  # noqa: E402
import gennet  # noqa: E402
import lpexact  # noqa: E402
import lpcheck  # noqa: E402,F401
import lpcheck_fva  # noqa: E402

sys.path.insert(0, os.path.join(K.REPO, "src"))

PROP = "C05"
EXTRA_TARGETS = ["theories/FVA/Check.vo"]
HEADER = """From Coq Require Import QArith List Bool ZArith.
From Cobra.LP Require Import Defs Fba.
From Cobra.FVA Require Import Model Check.
Import ListNotations.
Open Scope Q_scope."""
CASE_TYPE = "c05case"
CODES = {1: "model and implementation differ: one raises / returns a malformed table where the other returns a table",
         2: "a reported minimum is not the true smallest flux over the admitted flux distributions",
         3: "a reported maximum is not the true largest flux over the admitted flux distributions",
         4: "a reported minimum exceeds the reported maximum",
         5: "an optimal FBA solution lies outside the reported ranges",
         6: "a loopless range is not inside the plain range",
         7: "a loopless range is wider than the true range over loop-free flux distributions (a reported extreme is "
            "only attained with an internal cycle)",
         13: "a loopless range is wider than the true loop-free range on a network where the unchanged heuristic provably "
             "cannot be (no internal cycle, or a single internal cycle whose reactions have 0 inside their bounds and "
             "along which the objective is constant)",
         14: "a loopless range is narrower than the true loop-free range for a reaction where the unchanged heuristic "
             "provably cannot be (as 13, and the reaction is a boundary reaction or not on the cycle)",
         12: "a loopless range is narrower than the true range over loop-free flux distributions (a loop-free "
             "distribution is cut off)",
         8: "flux_variability_analysis raises although the model is feasible and the admitted set is non-empty "
            "(the parsimonious step is infeasible)",
         9: "exact oracle certificate rejected (harness fault)",
         10: "result frame is not indexed by the requested reaction ids in request order with columns minimum, maximum",
         11: "loopless run raised / returned a malformed table"}
THEOREMS = ("C05_fva_correct_max, C05_fva_correct_min, C05_fva_unbounded, C05_fva_pfba_correct, C05_fva_order, "
            "C05_fva_contains_optima, C05_fva_steps, C05_fva_ids, C05_loopless_fva_inside "
            "(coq/theories/Properties/C05.v)")
RULE = ("feasible bounded random networks (harness/gennet.py) x requested reaction subset (ids or objects, request order "
        "shuffled) x direction x fraction_of_optimum in {1,3/4,1/2,0} (fractions < 1 only when the optimum has the sign "
        "of the direction) x pfba_factor in {None,1,1.5,2} x loopless x processes in {1,2} x solver interface; "
        "non-trivial = at least one requested reaction has a range of non-zero width or a non-zero extreme; distinct = "
        "distinct case dictionaries")
TRUSTED = ["GLPK / optlang are validated per instance against the certificate-checked exact optima, not proved",
           "harness/lpexact.py only searches for certificates; coq/theories/LP/Cert.v decides them",
           "the exact loop-free ranges (sign-pattern enumeration) are computed in Python with exact rationals and are "
           "not re-checked in Coq",
           "floating point: values compared within 1e-6*max(1,|x|) (DESIGN 2.3)"]
ASSUMPTIONS = ["GLPK's simplex is not verified: its answers are validated on every explored instance",
               "exactness of loopless_fva_iter (CycleFreeFlux heuristic) is validated against enumeration only",
               "real process pools are exercised with processes=2 only (schedule independence is property C14)"]
SHARD = 25

ZERO = F(0)


# ------------------------------------------------------------------ the problems, as coq/theories/FVA/Model.v builds them
def split_bounds(lb, ub):
    if lb is not None and lb > 0:
        return (lb, ub), (ZERO, ZERO)
    if ub is not None and ub < 0:
        return (ZERO, ZERO), (-ub, None if lb is None else -lb)
    return (ZERO, ub), (ZERO, None if lb is None else -lb)


def dup(a):
    out = []
    for x in a:
        out += [x, -x]
    return out


def split_lp(net):
    base = gennet.net_lp(net)
    vb = []
    for lo, hi in base["vb"]:
        fb, rb = split_bounds(lo, hi)
        vb += [fb, rb]
    return {"vb": vb, "rows": [(dup(c), lo, hi) for c, lo, hi in base["rows"]], "obj": []}


def cvec(net):
    return [F(r["obj"]) for r in net["rxns"]]


def with_var(lp, e, lo, hi):
    assert len(e) == len(lp["vb"])
    return {"vb": lp["vb"] + [(lo, hi)], "rows": lp["rows"] + [(list(e) + [F(-1)], ZERO, ZERO)], "obj": lp["obj"]}


def base_lp(net, bound):
    mx = net["dir"] == "max"
    return with_var(split_lp(net), dup(cvec(net)), bound if mx else None, None if mx else bound)


def capped_lp(net, bound, cap):
    p = base_lp(net, bound)
    if cap is None:
        return p
    n = len(net["rxns"])
    return with_var(p, [F(1)] * (2 * n) + [ZERO], None, cap)


def pfba_lp(net, bound, fb):
    p = base_lp(net, bound)
    mx = net["dir"] == "max"
    n = len(net["rxns"])
    return {"vb": p["vb"], "rows": p["rows"] + [(dup(cvec(net)), fb if mx else None, None if mx else fb)],
            "obj": [F(-1)] * (2 * n)}


def fva_lp(net, bound, cap, j, mx):
    p = capped_lp(net, bound, cap)
    n = len(net["rxns"])
    c = [ZERO] * (2 * n)
    c[2 * j], c[2 * j + 1] = F(1), F(-1)
    if not mx:
        c = [-v for v in c]
    return {"vb": p["vb"], "rows": p["rows"], "obj": c}


def pfba_arg():
    """the fraction add_pfba is called with inside flux_variability_analysis, from the source (same reading as
    harness/tables_fva.py; the Coq side uses the generated table, this one only has to find the certificates)"""
    import ast
    src = open(os.path.join(K.REPO, "src", "cobra", "flux_analysis", "variability.py")).read()
    for node in ast.walk(ast.parse(src)):
        if isinstance(node, ast.Call) and getattr(node.func, "id", None) == "add_pfba":
            for k in node.keywords:
                if k.arg == "fraction_of_optimum":
                    if isinstance(k.value, ast.Constant):
                        return F(k.value.value)
                    return None
            return F(1)
    return F(0)


# ------------------------------------------------------------------ exact loop-free ranges (enumeration)
def internal_idx(net):
    return [i for i, r in enumerate(net["rxns"]) if len(r["st"]) != 1]


def loopfree_ranges(net, bound, ids):
    """For each requested reaction the exact (min, max) of its flux over the flux distributions in scope that
    contain no internal cycle; None when that set is empty.  Enumerates the sign patterns of the internal
    reactions, keeps the acyclic ones, optimises over each closed face."""
    internal = internal_idx(net)
    idx = {m: i for i, m in enumerate(net["mets"])}
    s_int = [[ZERO] * len(internal) for _ in net["mets"]]
    for k, i in enumerate(internal):
        for met, v in net["rxns"][i]["st"].items():
            s_int[idx[met]][k] = F(v)
    base = gennet.net_lp(net)
    mx = net["dir"] == "max"
    scope_rows = base["rows"] + [(cvec(net), bound if mx else None, None if mx else bound)]

    def acyclic(pat):
        vb = [(ZERO, F(1)) if s > 0 else ((F(-1), ZERO) if s < 0 else (ZERO, ZERO)) for s in pat]
        lp = {"vb": vb, "rows": [(row, ZERO, ZERO) for row in s_int], "obj": [F(s) for s in pat]}
        r = lpexact.certified(lp)
        if r[0] != "optimal":
            raise RuntimeError("cycle test LP not optimal: %s" % (r[0],))
        return lpexact.dot(lp["obj"], r[1]) == 0

    pats = sorted(itertools.product((1, 0, -1), repeat=len(internal)), key=lambda p: -sum(abs(s) for s in p))
    # patterns that the bounds cannot realise with a non-zero value are covered by the pattern with 0 there
    def useful(p):
        for s, i in zip(p, internal):
            lo, hi = base["vb"][i]
            if s > 0 and hi is not None and hi <= 0:
                return False
            if s < 0 and lo is not None and lo >= 0:
                return False
        return True
    kept = []
    for p in pats:
        if not useful(p):
            continue
        if any(all(q[k] == p[k] or p[k] == 0 for k in range(len(p))) for q in kept):
            continue          # closed face contained in the face of an acyclic pattern already kept
        if acyclic(p):
            kept.append(p)
    out = []
    for j in ids:
        lo_best, hi_best = None, None
        for p in kept:
            vb = list(base["vb"])
            ok = True
            for s, i in zip(p, internal):
                lo, hi = vb[i]
                if s > 0:
                    lo = ZERO if lo is None else max(lo, ZERO)
                elif s < 0:
                    hi = ZERO if hi is None else min(hi, ZERO)
                else:
                    lo = ZERO if lo is None else max(lo, ZERO)
                    hi = ZERO if hi is None else min(hi, ZERO)
                if lo is not None and hi is not None and lo > hi:
                    ok = False
                vb[i] = (lo, hi)
            if not ok:
                continue
            lp = {"vb": vb, "rows": scope_rows, "obj": []}
            e = [ZERO] * len(vb)
            e[j] = F(1)
            r = lpexact.maximize(lp, e)
            if r[0] == "infeasible":
                continue
            if r[0] != "optimal":
                return None       # unbounded / unknown: out of the compared class
            hi_v = r[1][j]
            r2 = lpexact.minimize(lp, e)
            if r2[0] != "optimal":
                return None
            lo_v = r2[1][j]
            lo_best = lo_v if lo_best is None else min(lo_best, lo_v)
            hi_best = hi_v if hi_best is None else max(hi_best, hi_v)
        out.append(None if lo_best is None else (lo_best, hi_best))
    return out


def internal_nullspace(net):
    """exact basis of the null space of the internal stoichiometry (vectors over internal_idx(net))"""
    internal = internal_idx(net)
    idx = {m: i for i, m in enumerate(net["mets"])}
    a = [[ZERO] * len(internal) for _ in net["mets"]]
    for k, i in enumerate(internal):
        for met, v in net["rxns"][i]["st"].items():
            a[idx[met]][k] = F(v)
    piv, r = [], 0
    for col in range(len(internal)):
        p = next((i for i in range(r, len(a)) if a[i][col] != 0), None)
        if p is None:
            continue
        a[r], a[p] = a[p], a[r]
        a[r] = [v / a[r][col] for v in a[r]]
        for i in range(len(a)):
            if i != r and a[i][col] != 0:
                f = a[i][col]
                a[i] = [v - f * w for v, w in zip(a[i], a[r])]
        piv.append(col)
        r += 1
    free = [c for c in range(len(internal)) if c not in piv]
    basis = []
    for fcol in free:
        z = [ZERO] * len(internal)
        z[fcol] = F(1)
        for row, pc in zip(a, piv):
            z[pc] = -row[fcol]
        basis.append(z)
    return internal, basis


def strict_flags(net, ids):
    """Per requested reaction (cannot_be_wider, cannot_be_narrower): structural classes in which the UNCHANGED
    loopless_fva_iter is provably exact on that side (argument in docs/C05.md):
      * no internal cycle at all: the cycle-free LP has the single point it started from -> plain = loop-free = reported;
      * exactly one internal cycle z0 (null space of dimension 1), every reaction on it has 0 inside its bounds and the
        objective does not change along it (c.z0 = 0): removing the cycle stays inside the admitted set, so the cycle-free
        solution is loop-free and a value returned by the first two branches is attained loop-free; the third branch closes
        a reaction of the cycle, after which every feasible point is loop-free -> never wider; boundary reactions and
        reactions off the cycle keep their flux under cycle removal -> exact on both sides."""
    internal, basis = internal_nullspace(net)
    if not basis:
        return [(True, True)] * len(ids), "acyclic"
    if len(basis) > 1:
        return [(False, False)] * len(ids), "many-cycles"
    z0 = dict(zip(internal, basis[0]))
    for i, z in z0.items():
        if z != 0:
            lb, ub = gennet.num(net["rxns"][i]["lb"]), gennet.num(net["rxns"][i]["ub"])
            if (lb is not None and lb > 0) or (ub is not None and ub < 0):
                return [(False, False)] * len(ids), "one-cycle-forced"
    if sum((F(net["rxns"][i]["obj"]) * z for i, z in z0.items()), ZERO) != 0:
        return [(False, False)] * len(ids), "one-cycle-objective"
    return [(True, z0.get(j, ZERO) == 0) for j in ids], "one-cycle"


def one_cycle_network(rng, max_int):
    """a network of the class "one-cycle" above, with a mostly reversible, wide cycle"""
    for _ in range(200):
        net = gennet.gen_network(rng, finite_only=True, forced_p=0.0, max_rxns=8)
        internal, basis = internal_nullspace(net)
        if len(basis) != 1 or len(internal) > max_int:
            continue
        z0 = dict(zip(internal, basis[0]))
        wide = rng.random() < 0.7
        for i, z in z0.items():
            if z == 0:
                continue
            r = net["rxns"][i]
            r["obj"] = "0"
            lb, ub = gennet.num(r["lb"]), gennet.num(r["ub"])
            if wide:
                r["lb"], r["ub"] = rng.choice([("-1000", "1000"), ("-1000", "1000"), ("-10", "1000"), ("-1000", "5")])
            else:
                if lb > 0:
                    r["lb"] = "0"
                if ub < 0:
                    r["ub"] = "0"
        if all(F(r["obj"]) == 0 for r in net["rxns"]):
            cand = [r for i, r in enumerate(net["rxns"]) if z0.get(i, ZERO) == 0]
            if not cand:
                continue
            rng.choice(cand)["obj"] = "1"
        if strict_flags(net, [0])[1] == "one-cycle":
            return net
    return None


# ------------------------------------------------------------------ cases
def qf(x):
    if x is None or (isinstance(x, float) and (math.isnan(x) or math.isinf(x))):
        return None
    return F(float(x))


def vec(xs):
    return "[" + "; ".join(gennet.q(x) for x in xs) + "]"


def gen_cases(rng, tier):
    n = 150 if tier == "quick" else 3000
    n_ll_max = 4 if tier == "quick" else 6
    cases = []
    tries = 0
    while len(cases) < n and tries < 40 * n:
        tries += 1
        k = len(cases)
        loopless = k % 5 == 4
        if loopless and k % 10 == 9:
            net = one_cycle_network(rng, n_ll_max)
            if net is None:
                continue
        elif loopless:
            net = gennet.gen_network(rng, finite_only=True, forced_p=0.0, max_rxns=8)
            if len(internal_idx(net)) > n_ll_max or not internal_idx(net):
                continue
        else:
            net = gennet.gen_network(rng, inf_p=0.25 if k % 7 == 0 else 0.04, forced_p=0.35 if k % 3 == 0 else 0.08)
        o = lpexact.certified(gennet.net_lp(net))
        if o[0] != "optimal":
            continue
        opt = sum((F(r["obj"]) * v for r, v in zip(net["rxns"], o[1])), ZERO)
        mx = net["dir"] == "max"
        sign_ok = opt >= 0 if mx else opt <= 0
        frac = rng.choice(["1", "1", "3/4", "1/2", "0"]) if sign_ok else "1"
        ids = [r["id"] for r in net["rxns"]]
        if rng.random() < 0.5:
            sub = ids
        else:
            sub = rng.sample(ids, rng.randrange(1, len(ids) + 1))
            if rng.random() < 0.5:
                sub = sorted(sub, key=ids.index)
        pf = None if loopless else rng.choice([None, None, "1", "3/2", "2"])
        cases.append({"net": net, "solver": "glpk_exact" if k % 6 == 5 else "glpk", "frac": frac, "pfba": pf,
                      "rxn_list": sub, "objects": rng.random() < 0.5, "all_none": sub is ids and rng.random() < 0.5,
                      "loopless": loopless, "processes": 2 if k % 8 == 3 else 1})
    return cases


def run_fva(m, case, loopless):
    from cobra.flux_analysis import flux_variability_analysis
    ids = case["rxn_list"]
    if case.get("all_none") and ids == [r["id"] for r in case["net"]["rxns"]]:
        rl = None
    elif case["objects"]:
        rl = [m.reactions.get_by_id(i) for i in ids]
    else:
        rl = list(ids)
    pf = None if case["pfba"] is None else float(F(case["pfba"]))
    try:
        with warnings.catch_warnings():
            warnings.simplefilter("ignore")
            df = flux_variability_analysis(m, reaction_list=rl, loopless=loopless,
                                           fraction_of_optimum=float(F(case["frac"])), pfba_factor=pf,
                                           processes=case["processes"])
    except Exception as e:  # noqa
        return "ORaise", {"raised": "%s: %s" % (type(e).__name__, e)}, True
    index_ok = list(df.index) == list(ids) and list(df.columns) == ["minimum", "maximum"]
    rows = []
    for i in range(len(df)):
        a, b = qf(df["minimum"].iloc[i]), qf(df["maximum"].iloc[i])
        if a is None or b is None:
            return "OBad", {"table": df.to_dict()}, index_ok
        rows.append("(%s, %s)" % (gennet.q(a), gennet.q(b)))
    return "(OTable [%s])" % "; ".join(rows), \
        {"minimum": {k: float(v) for k, v in df["minimum"].items()},
         "maximum": {k: float(v) for k, v in df["maximum"].items()}}, index_ok


def case_term(case):
    net = case["net"]
    pos = {r["id"]: i for i, r in enumerate(net["rxns"])}
    ids = [pos[i] for i in case["rxn_list"]]
    o = lpexact.certified(gennet.net_lp(net))
    if o[0] != "optimal":
        return None, {"skipped": True, "stats": {"verdict": o[0]}}
    x, y = o[1], o[2]
    opt = sum((c * v for c, v in zip(cvec(net), x)), ZERO)
    frac = F(case["frac"])
    mx = net["dir"] == "max"
    if frac != 1 and not (opt >= 0 if mx else opt <= 0):
        return None, {"skipped": True, "stats": {"verdict": "fraction not admissible"}}
    bound = frac * opt
    cap = None
    pterm = "None"
    pf_infeasible = False
    if case["pfba"] is not None:
        # The model side is evaluated with the property's reading (the parsimonious step keeps the objective at the
        # requested fraction).  That the source says the same is theorem C05_tables_ok over the regenerated table;
        # when that theorem breaks, the differential below is what finds the concrete failing input.
        a = None
        fb = (frac if a is None else a) * opt
        aterm = "PfbaSameFraction" if a is None else "(PfbaConst %s)" % gennet.q(a)
        r = lpexact.certified(pfba_lp(net, bound, fb))
        if r[0] == "optimal":
            ms = sum(r[1][:2 * len(net["rxns"])], ZERO)
            cap = F(case["pfba"]) * ms
            pterm = "(Some (%s, %s, POpt %s %s))" % (gennet.q(F(case["pfba"])), aterm, vec(r[1]), vec(r[2]))
        elif r[0] == "infeasible":
            pf_infeasible = True
            pterm = "(Some (%s, %s, PInf %s))" % (gennet.q(F(case["pfba"])), aterm, vec(r[1]))
        else:
            pterm = "(Some (%s, %s, PInf []))" % (gennet.q(F(case["pfba"])), aterm)
    certs = []
    widths = []
    n_unb = 0
    if not pf_infeasible:
        for j in ids:
            pair = []
            vals = []
            for want_max in (False, True):
                r = lpexact.certified(fva_lp(net, bound, cap, j, want_max))
                if r[0] == "optimal":
                    pair.append("ROpt %s %s" % (vec(r[1]), vec(r[2])))
                    vals.append(r[1][2 * j] - r[1][2 * j + 1])
                elif r[0] == "unbounded":
                    pair.append("RUnb %s %s" % (vec(r[1]), vec(r[2])))
                    n_unb += 1
                else:
                    pair.append("RUnb [] []")
            certs.append("(%s, %s)" % tuple(pair))
            widths.append(vals)
    m = gennet.to_cobra(net, case["solver"])
    with warnings.catch_warnings():
        warnings.simplefilter("ignore")
        sol = m.optimize()
    own = [qf(sol.fluxes[r["id"]]) for r in net["rxns"]] if sol.status == "optimal" else None
    optima = [vec(x)] + ([vec(own)] if own is not None and None not in own else [])
    impl, obs, index_ok = run_fva(m, case, False)
    ll = "None"
    obs_ll = None
    ll_empty = 0
    ll_class = "-"
    if case["loopless"] and not pf_infeasible and n_unb == 0:
        m2 = gennet.to_cobra(net, case["solver"])
        impl_ll, obs_ll, _ = run_fva(m2, case, True)
        ex = loopfree_ranges(net, bound, ids)
        if ex is None:
            ex = [None] * len(ids)
        ll_empty = sum(1 for e in ex if e is None)
        flags, ll_class = strict_flags(net, ids)
        ll = "(Some (%s, [%s]))" % (impl_ll, "; ".join(
            "(%s, (%s, %s))" % ("None" if e is None else "Some (%s, %s)" % (gennet.q(e[0]), gennet.q(e[1])),
                               "true" if fl[0] else "false", "true" if fl[1] else "false")
            for e, fl in zip(ex, flags)))
    term = "(mkC05 %s (%s, %s) %s %s [%s] [%s] %s %s [%s] %s)" % (
        gennet.coq_net(net), vec(x), vec(y), gennet.q(frac), pterm,
        "; ".join("%d%%nat" % j for j in ids), "; ".join(certs), impl, "true" if index_ok else "false",
        "; ".join(optima), ll)
    nontrivial = any(len(v) == 2 and (v[0] != v[1] or v[0] != 0) for v in widths)
    return term, {"obs": {"fva": obs, "loopless": obs_ll, "fba_optimum": float(opt)},
                  "nontrivial": nontrivial,
                  "stats": {"solver": case["solver"], "dir": net["dir"], "fraction": case["frac"],
                            "pfba_factor": str(case["pfba"]), "loopless": case["loopless"],
                            "processes": case["processes"], "objects": case["objects"],
                            "n_requested": len(ids), "optimum_sign": "neg" if opt < 0 else ("zero" if opt == 0 else "pos"),
                            "unbounded_ranges": n_unb > 0, "pfba_step_infeasible": pf_infeasible,
                            "loopfree_scope_empty": ll_empty > 0, "loopless_structure": ll_class, "outcome": impl.split(" ")[0].strip("(")}}


def has_internal_cycle(net):
    """the internal stoichiometry has a non-zero null vector (some sign pattern of the internal reactions is a cycle)"""
    internal = internal_idx(net)
    if not internal:
        return False
    idx = {m: i for i, m in enumerate(net["mets"])}
    s_int = [[ZERO] * len(internal) for _ in net["mets"]]
    for k, i in enumerate(internal):
        for met, v in net["rxns"][i]["st"].items():
            s_int[idx[met]][k] = F(v)
    for k in range(len(internal)):
        lp = {"vb": [(F(-1), F(1))] * len(internal), "rows": [(row, ZERO, ZERO) for row in s_int],
              "obj": [F(1) if i == k else ZERO for i in range(len(internal))]}
        r = lpexact.certified(lp)
        if r[0] == "optimal" and r[1][k] > 0:
            return True
    return False


def signature(case, codes):
    return {"codes": [c for c in codes if c != 9], "pfba": case.get("pfba") is not None,
            "loopless": bool(case.get("loopless")),
            "internal_cycle": has_internal_cycle(case["net"]) if case.get("loopless") else False}


def extra_monitors(rep, args):
    """Shipped model, real solver floats (the generated networks are dyadic and never show solver noise): loopless and
    plain FVA called one after the other on the same textbook model with 1 and 2 processes must not raise and must
    agree within the tolerance rule.  (Found by hand: _add_cycle_free built crossed bounds from a flux 1e-13 below a
    positive lower bound; whether that happened depended on the calls made before.)"""
    import warnings
    import numpy as np
    from cobra.io import load_model
    from cobra.flux_analysis import flux_variability_analysis as fva
    out = {"model": "textbook", "calls": []}
    with warnings.catch_warnings():
        warnings.simplefilter("ignore")
        m = load_model("textbook")
        seq = [(True, 1), (True, 2), (False, 2), (True, 1)] if args.tier == "quick" else \
              [(True, 1), (True, 2), (False, 2), (True, 1), (True, 3), (False, 1), (True, 2)]
        ref = {}
        for loopless, p in seq:
            try:
                df = fva(m, loopless=loopless, processes=p)
            except Exception as e:  # noqa
                out["calls"].append([loopless, p, "raised " + type(e).__name__])
                rep.violation({"monitor": "textbook-sequence", "raised": type(e).__name__},
                              {"failed": "flux_variability_analysis raised on the shipped textbook model",
                               "sequence_of_calls_(loopless, processes)": seq, "failing_call": [loopless, p],
                               "exception": "%s: %s" % (type(e).__name__, e)})
                break
            out["calls"].append([loopless, p, "ok"])
            if loopless in ref:
                d = float(np.nanmax(np.abs((df - ref[loopless]).values)))
                if d > 1e-6 * max(1.0, float(np.nanmax(np.abs(ref[loopless].values)))):
                    rep.violation({"monitor": "textbook-sequence", "differs": True},
                                  {"failed": "FVA of the same model differs between calls / process counts",
                                   "sequence_of_calls_(loopless, processes)": seq, "failing_call": [loopless, p],
                                   "max_abs_difference": d})
                    break
            else:
                ref[loopless] = df
    return out


if __name__ == "__main__":
    # the correspondence functions do not depend on the generated tables: build them first, so that a source
    # shape the translator no longer recognises (Properties/C05.v then fails) still gets a failing-input search
    sys.exit(lpcheck_fva.main(sys.modules[__name__]))
