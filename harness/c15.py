"""C15 — DictList coherence: correspondence of cobra.core.dictlist.DictList with the Gallina
model (coq/theories/DictList/Model.v) + the Coq-defined monitor on the real object's state."""
import copy
import itertools
import json
import pickle
import random
import sys
import os

sys.path.insert(0, os.path.dirname(os.path.abspath(__file__)))
import common as K  # noqa: E402
from common import C, Raw, Some, coq  # noqa: E402

sys.path.insert(0, os.path.join(K.REPO, "src"))

PROP = "C15"
ALPHA = ["a", "b", "c", "d", "e", "f", "g", "h"]   # id strings; code = position (string order = code order)


# ------------------------------------------------------------------ case language (JSON-able)
# element: [id_code, obj_tag]      key: ["id", code] | ["obj", [code, tag]]
# slice:   [start|None, stop|None, step|None]
# op:      [name, args...]

def el(e):
    return C("mkE", e[0], e[1])


def key(k):
    return C("KId", k[1]) if k[0] == "id" else C("KObj", el(k[1]))


def optz(v):
    return None if v is None else Some(v)


def sl(s):
    return C("mkS", optz(s[0]), optz(s[1]), optz(s[2]))


def op_term(o):
    n, a = o[0], o[1:]
    if n in ("Append", "Add"):
        return C(n, el(a[0]))
    if n in ("Insert", "SetItem"):
        return C(n, a[0], el(a[1]))
    if n in ("Extend", "IAdd", "Union", "Plus"):
        return C(n, [el(e) for e in a[0]])
    if n in ("ISub", "Minus"):
        return C(n, [key(k) for k in a[0]])
    if n == "SetSlice":
        return C(n, sl(a[0]), [el(e) for e in a[1]])
    if n in ("DelItem", "GetItem", "HasId", "GetById"):
        return C(n, a[0])
    if n in ("DelSlice", "GetSlice"):
        return C(n, sl(a[0]))
    if n == "Pop":
        return C(n, optz(a[0]))
    if n in ("Remove", "Index", "Contains"):
        return C(n, key(a[0]))
    if n == "Sort":
        return C(n, bool(a[0]))
    if n == "Query":
        return C(n, list(a[0]))
    if n in ("Reverse", "Copy", "Pickle", "Len"):
        return C(n)
    raise ValueError(n)


# ------------------------------------------------------------------ implementation side

class Pool:
    """Objects by (id_code, tag); two calls with the same pair give the same Python object."""
    def __init__(self):
        from cobra.core.object import Object
        self.Object = Object
        self.objs = {}
        self.tags = {}

    def get(self, e):
        k = (e[0], e[1])
        if k not in self.objs:
            o = self.Object(ALPHA[e[0]])
            self.objs[k] = o
            self.tags[id(o)] = e[1]
        return self.objs[k]

    def tag(self, o):
        return self.tags.get(id(o), -1)

    def elem(self, o):
        return [ALPHA.index(o.id), self.tag(o)]


def observe(pool, dlist, out):
    items = [pool.elem(o) for o in list.__iter__(dlist)]
    dct = sorted((ALPHA.index(k), (-999 if v is None else v)) for k, v in dlist._dict.items())
    return {"items": items, "dict": [list(x) for x in dct], "out": out}


def obs_dl(pool, d, pickled=False):
    items = [[ALPHA.index(o.id), -1 if pickled else pool.tag(o)] for o in list.__iter__(d)]
    dct = sorted((ALPHA.index(k), (-999 if v is None else v)) for k, v in d._dict.items())
    return ["DL", items, [list(x) for x in dct]]


def apply_op(pool, d, o):
    """Apply one op to the real DictList; returns (new list object (for +=/-=), out)."""
    from cobra.core.dictlist import DictList
    n, a = o[0], o[1:]
    G = pool.get

    def K_(k):
        return ALPHA[k[1]] if k[0] == "id" else G(k[1])

    def S_(s):
        return slice(s[0], s[1], s[2])
    try:
        if n == "Append":
            d.append(G(a[0])); out = ["None"]
        elif n == "Insert":
            d.insert(a[0], G(a[1])); out = ["None"]
        elif n == "Extend":
            d.extend([G(e) for e in a[0]]); out = ["None"]
        elif n == "IAdd":
            rhs = [G(e) for e in a[0]]
            if len(a) > 1 and a[1] == "dl":          # the right-hand side is itself a DictList (a slice, a query result)
                try:
                    rhs = type(d)(rhs)
                except ValueError:
                    pass                              # not unique among themselves: stays a plain list
            d += rhs; out = ["None"]
        elif n == "Add":
            d.add(G(a[0])); out = ["None"]
        elif n == "Union":
            d.union([G(e) for e in a[0]]); out = ["None"]
        elif n == "ISub":
            d -= [K_(k) for k in a[0]]; out = ["None"]
        elif n == "SetItem":
            d[a[0]] = G(a[1]); out = ["None"]
        elif n == "SetSlice":
            d[S_(a[0])] = [G(e) for e in a[1]]; out = ["None"]
        elif n == "DelItem":
            del d[a[0]]; out = ["None"]
        elif n == "DelSlice":
            del d[S_(a[0])]; out = ["None"]
        elif n == "Pop":
            r = d.pop() if a[0] is None else d.pop(a[0]); out = ["Elem", pool.elem(r)]
        elif n == "Remove":
            d.remove(K_(a[0])); out = ["None"]
        elif n == "Sort":
            if len(a) > 1 and a[1] == "cmp":
                # the legacy first parameter `cmp` is accepted and documented as ignored: the order is by identifier
                # (a comparison that agrees with the identifier order, so that honouring it would give the same list)
                d.sort(lambda x, y: (x.id > y.id) - (x.id < y.id), reverse=bool(a[0]))
            else:
                d.sort(reverse=bool(a[0]))
            out = ["None"]
        elif n == "Reverse":
            d.reverse(); out = ["None"]
        elif n == "Copy":
            if a and a[0] == "ctor":
                # the copy constructor DictList(other); the copy is then edited: the original must not notice
                c = DictList(d)
                out = obs_dl(pool, c)
                if len(c):
                    c.pop(0)
                    c.reverse()
            else:
                out = obs_dl(pool, copy.copy(d))
        elif n == "Pickle":
            out = obs_dl(pool, pickle.loads(pickle.dumps(d)), pickled=True)
        elif n == "GetItem":
            out = ["Elem", pool.elem(d[a[0]])]
        elif n == "GetSlice":
            out = obs_dl(pool, d[S_(a[0])])
        elif n == "Query":
            ids = set(ALPHA[i] for i in a[0])
            out = obs_dl(pool, d.query(lambda x: x.id in ids))
        elif n == "Plus":
            out = obs_dl(pool, d + [G(e) for e in a[0]])
        elif n == "Minus":
            out = obs_dl(pool, d - [K_(k) for k in a[0]])
        elif n == "Index":
            out = ["Int", d.index(K_(a[0]))]
        elif n == "Contains":
            out = ["Bool", K_(a[0]) in d]
        elif n == "HasId":
            out = ["Bool", d.has_id(ALPHA[a[0]])]
        elif n == "GetById":
            out = ["Elem", pool.elem(d.get_by_id(ALPHA[a[0]]))]
        elif n == "Len":
            out = ["Int", len(d)]
        else:
            raise RuntimeError("unknown op " + n)
    except ValueError:
        out = ["Raise", "ValueError"]
    except IndexError:
        out = ["Raise", "IndexError"]
    except KeyError:
        out = ["Raise", "KeyError"]
    except Exception as e:  # any other exception class is outside the model: always a disagreement
        out = ["Other", type(e).__name__]
    return d, out


def run_impl(case):
    from cobra.core.dictlist import DictList
    pool = Pool()
    d = DictList([pool.get(e) for e in case["init"]])
    obs0 = observe(pool, d, ["None"])
    steps = []
    for o in case["ops"]:
        d, out = apply_op(pool, d, o)
        steps.append(observe(pool, d, out))
    return obs0, steps


def out_term(o):
    k = o[0]
    if k == "None":
        return C("XNone")
    if k == "Int":
        return C("XInt", o[1])
    if k == "Bool":
        return C("XBool", bool(o[1]))
    if k == "Elem":
        return C("XElem", el(o[1]))
    if k == "DL":
        return C("XDL", [el(e) for e in o[1]], [tuple(x) for x in o[2]])
    if k == "Raise":
        return C("XRaise", C(o[1]))
    return C("XOther")


def obs_term(ob):
    return C("mkObs", [el(e) for e in ob["items"]], [tuple(x) for x in ob["dict"]], out_term(ob["out"]))


def case_term(case, obs0, steps):
    al = list(range(len(ALPHA)))
    return coq((al, [el(e) for e in case["init"]], obs_term(obs0),
                [(op_term(o), obs_term(s)) for o, s in zip(case["ops"], steps)]))


HEADER = """From Coq Require Import ZArith List Bool.
From Cobra.DictList Require Import Model Check.
Import ListNotations.
Open Scope Z_scope."""
CASE_TYPE = "list Z * list elem * obs * list (op * obs)"


# ------------------------------------------------------------------ generators

def all_lists(nids, maxlen):
    for n in range(maxlen + 1):
        for perm in itertools.permutations(range(nids), n):
            yield [[i, 10 + i] for i in perm]


def slices(rng_vals, steps):
    for a in rng_vals:
        for b in rng_vals:
            for s in steps:
                yield [a, b, s]


def single_step_ops(nids, idx_range, slice_vals, slice_steps):
    """Every op with every argument over a small space (for the exhaustive tier)."""
    E = [[i, 10 + i] for i in range(nids)]          # the canonical object of each id
    E2 = [[i, 50 + i] for i in range(nids)]         # a different object with the same id
    ops = []
    for e in E:
        ops += [["Append", e], ["Add", e]]
        for i in idx_range:
            ops += [["Insert", i, e], ["SetItem", i, e]]
    for e in E2[:2]:
        for i in idx_range:
            ops.append(["SetItem", i, e])
    pairs = [[E[i], E[j]] for i in range(nids) for j in range(nids)]
    for es in [[]] + [[e] for e in E] + pairs:
        ops += [["Extend", es], ["IAdd", es], ["IAdd", es, "dl"], ["Union", es], ["Plus", es]]
    keys = [["id", i] for i in range(nids)] + [["obj", e] for e in E] + [["obj", e] for e in E2[:2]]
    for k in keys:
        ops += [["Remove", k], ["Index", k], ["Contains", k]]
    kpairs = [[keys[i], keys[j]] for i in range(nids) for j in range(nids)] + \
             [[["obj", E[0]], ["id", 1]], [["id", 0], ["obj", E[0]]]]
    for ks in [[]] + [[k] for k in keys] + kpairs:
        ops += [["ISub", ks], ["Minus", ks]]
    for i in idx_range:
        ops += [["DelItem", i], ["GetItem", i], ["Pop", i]]
    ops.append(["Pop", None])
    for s in slices(slice_vals, slice_steps):
        ops += [["DelSlice", s], ["GetSlice", s]]
        for es in [[], [E[nids - 1]], [E[nids - 1], E[0]], [E[nids - 1], E[nids - 1]], [E2[1]]]:
            ops.append(["SetSlice", s, es])
    for i in range(nids):
        ops += [["HasId", i], ["GetById", i]]
    ops += [["Sort", 0], ["Sort", 1], ["Sort", 0, "cmp"], ["Reverse"], ["Copy"], ["Copy", "ctor"], ["Pickle"], ["Len"]]
    for m in [[], [0], [1, 2], list(range(nids))]:
        ops.append(["Query", m])
    return ops


def rand_elem(rng, nids, cur_ids, p_dup):
    if cur_ids and rng.random() < p_dup:
        i = rng.choice(sorted(cur_ids))
    else:
        i = rng.randrange(nids)
    tag = 10 + i if rng.random() < 0.85 else 50 + i
    return [i, tag]


def rand_index(rng, n):
    r = rng.random()
    if r < 0.6 and n:
        return rng.randrange(-n, n)
    if r < 0.8:
        return rng.choice([-n - 1, n, n + 1, -n - 3, n + 4])
    return rng.randrange(-3, 4)


def rand_slice(rng, n):
    def v():
        r = rng.random()
        if r < 0.25:
            return None
        return rng.randrange(-n - 2, n + 3)
    step = rng.choice([None, None, 1, 1, -1, 2, -2, 3, 0 if rng.random() < 0.1 else 2])
    return [v(), v(), step]


def rand_key(rng, nids, cur, p_missing):
    if cur and rng.random() > p_missing:
        e = rng.choice(cur)
    else:
        e = [rng.randrange(nids), 10]
        e[1] = 10 + e[0]
    r = rng.random()
    if r < 0.45:
        return ["id", e[0]]
    if r < 0.9:
        return ["obj", e]
    return ["obj", [e[0], 50 + e[0]]]


OPS_W = [("Append", 8), ("Insert", 8), ("Extend", 6), ("IAdd", 4), ("Add", 3), ("Union", 3), ("ISub", 4),
         ("SetItem", 8), ("SetSlice", 7), ("DelItem", 6), ("DelSlice", 4), ("Pop", 5), ("Remove", 5),
         ("Sort", 2), ("Reverse", 2), ("Copy", 1), ("Pickle", 1), ("GetItem", 2), ("GetSlice", 3), ("Query", 2),
         ("Plus", 2), ("Minus", 2), ("Index", 3), ("Contains", 2), ("HasId", 1), ("GetById", 2), ("Len", 1)]


def rand_history(rng, nids, length):
    """Random op sequence; the generator tracks the expected list only to choose mostly-valid
    arguments (it does not decide anything)."""
    from cobra.core.dictlist import DictList  # noqa: F401
    n0 = rng.randrange(0, min(nids, 5) + 1)
    init = [[i, 10 + i] for i in rng.sample(range(nids), n0)]
    ops = []
    cur = list(init)   # approximate tracking by replaying on the implementation would bias; keep simple
    names = [n for n, w in OPS_W for _ in range(w)]
    for _ in range(length):
        n = rng.choice(names)
        ids_now = {e[0] for e in cur}
        ln = len(cur)
        if n in ("Append", "Add"):
            o = [n, rand_elem(rng, nids, ids_now, 0.15)]
        elif n in ("Insert", "SetItem"):
            o = [n, rand_index(rng, ln), rand_elem(rng, nids, ids_now, 0.2)]
        elif n in ("Extend", "IAdd", "Union", "Plus"):
            o = [n, [rand_elem(rng, nids, ids_now, 0.1) for _ in range(rng.randrange(0, 4))]]
            if n == "IAdd" and rng.random() < 0.5:
                o.append("dl")
        elif n in ("ISub", "Minus"):
            o = [n, [rand_key(rng, nids, cur, 0.12) for _ in range(rng.randrange(0, 3))]]
        elif n == "SetSlice":
            o = [n, rand_slice(rng, ln), [rand_elem(rng, nids, ids_now, 0.1) for _ in range(rng.randrange(0, 4))]]
        elif n in ("DelItem", "GetItem"):
            o = [n, rand_index(rng, ln)]
        elif n in ("DelSlice", "GetSlice"):
            o = [n, rand_slice(rng, ln)]
        elif n == "Pop":
            o = [n, None if rng.random() < 0.4 else rand_index(rng, ln)]
        elif n in ("Remove", "Index", "Contains"):
            o = [n, rand_key(rng, nids, cur, 0.2)]
        elif n == "Sort":
            o = [n, rng.randrange(2)] + (["cmp"] if rng.random() < 0.3 else [])
        elif n == "Query":
            o = [n, rng.sample(range(nids), rng.randrange(0, nids))]
        elif n in ("HasId", "GetById"):
            o = [n, rng.randrange(nids)]
        else:
            o = [n]
            if n == "Copy" and rng.random() < 0.5:
                o.append("ctor")
        ops.append(o)
        cur = track(cur, o)
    return {"init": init, "ops": ops}


def track(cur, o):
    """Cheap approximate tracking of the contents (only used to steer the generator)."""
    n = o[0]
    ids_now = {e[0] for e in cur}
    try:
        if n in ("Append", "Add") and o[1][0] not in ids_now:
            return cur + [o[1]]
        if n == "Insert" and o[2][0] not in ids_now:
            c = list(cur); c.insert(o[1], o[2]); return c
        if n in ("Extend", "IAdd"):
            new = [e[0] for e in o[1]]
            if len(set(new)) == len(new) and not (set(new) & ids_now):
                return cur + o[1]
        if n in ("Pop", "DelItem"):
            c = list(cur)
            if o[1] is None:
                c.pop()
            else:
                c.pop(o[1])
            return c
        if n == "Remove":
            return [e for e in cur if e[0] != (o[1][1] if o[1][0] == "id" else o[1][1][0])]
        if n == "Reverse":
            return cur[::-1]
        if n == "Sort":
            return sorted(cur, reverse=bool(o[1]))
    except Exception:
        pass
    return cur


# ------------------------------------------------------------------ running and deciding

CODES = {1: "model and implementation differ", 2: "list/index not coherent after the operation",
         3: "operation raised but changed the list"}


def evaluate(cases):
    """Run implementation + model on cases; return list of (case_index, [(step, code)...])."""
    terms = []
    impl = []
    for c in cases:
        obs0, steps = run_impl(c)
        impl.append((obs0, steps))
        terms.append(case_term(c, obs0, steps))
    res, faults = K.coq_eval_cases(HEADER, terms, CASE_TYPE, "failing", shard=400)
    return res, faults, impl


def shrink(case, codes_wanted):
    """Delta-debug the op list (and the initial list) keeping a failure with one of the codes.
    Every round evaluates all single-deletion candidates in one coqc run."""
    def failing_set(cs):
        res, faults, _ = evaluate(cs)
        if faults:
            return {}
        return {i: lst for i, lst in res if any(code in codes_wanted for _, code in lst)}
    cur = case
    f = failing_set([cur])
    if 0 in f:
        first = min(s for s, code in f[0] if code in codes_wanted)
        cur = {"init": cur["init"], "ops": cur["ops"][:max(first, 1)]}
    for _ in range(8):
        cands = [{"init": cur["init"], "ops": cur["ops"][:i] + cur["ops"][i + 1:]}
                 for i in range(len(cur["ops"]) - 1)]
        cands += [{"init": cur["init"][:i] + cur["init"][i + 1:], "ops": cur["ops"]}
                  for i in range(len(cur["init"]))]
        if not cands:
            break
        f = failing_set(cands)
        if not f:
            break
        cur = cands[min(f)]
    return cur


def signature(case, code):
    last = case["ops"][-1]
    sig = {"op": last[0], "code": code}
    if last[0] in ("Insert", "SetItem", "DelItem", "GetItem", "Pop") and last[1] is not None:
        n = len(case["init"])
        sig["index_class"] = "negative" if last[1] < 0 else ("in_range" if last[1] < n else "too_large")
    return sig


def main(argv=None):
    args = K.parse_args(argv)
    rep = K.Reporter(PROP, args.tier, args.seed)
    info, broken = K.standard_prelude(PROP, rep, extra_targets=["theories/DictList/Check.vo"])
    rng = random.Random(args.seed)

    if args.replay:
        rp = json.load(open(args.replay))
        cases = [rp["case"]]
        exhaustive_n = 0
    else:
        cases = []
        corpus = os.path.join(K.VERIF, "corpus", PROP)
        if os.path.isdir(corpus):
            for f in sorted(os.listdir(corpus)):
                cases.append(json.load(open(os.path.join(corpus, f)))["case"])
        n_corpus = len(cases)
        # bounded-exhaustive single steps
        if args.tier == "quick":
            nids, maxlen, idxs, svals, ssteps = 4, 3, range(-5, 6), [None, -4, -2, -1, 0, 1, 2, 4], [None, 1, -1, 2]
            n_rand, hist_len = 600, 12
        else:
            nids, maxlen, idxs, svals, ssteps = 4, 3, range(-5, 6), [None, -4, -3, -2, -1, 0, 1, 2, 3, 4], \
                [None, 1, -1, 2, -2, 3, 0]
            n_rand, hist_len = 20000, 40
        ops = single_step_ops(nids, idxs, svals, ssteps)
        for l in all_lists(nids, maxlen):
            # one case per list: each op applied as a separate single-step case would be 40k coqc
            # cases; instead ops that do not change the list are chained after a copy of it
            for o in ops:
                cases.append({"init": l, "ops": [o]})
        exhaustive_n = len(cases) - n_corpus
        if args.tier == "thorough":
            # exhaustive two-step histories over a smaller op set
            small_ops = single_step_ops(3, range(-3, 4), [None, -2, 0, 1], [None, -1, 2])
            for l in all_lists(3, 2):
                for o1 in small_ops:
                    if o1[0] in ("Index", "Contains", "HasId", "GetById", "Len", "GetItem", "GetSlice", "Query",
                                 "Copy", "Pickle", "Plus", "Minus"):
                        continue
                    for o2 in small_ops[::7]:
                        cases.append({"init": l, "ops": [o1, o2]})
        for _ in range(n_rand):
            cases.append(rand_history(rng, rng.choice([4, 6, 8]), rng.randrange(1, hist_len + 1)))

    res, faults, impl = evaluate(cases)
    if faults:
        print("HARNESS FAULT: model evaluation failed:\n" + "\n".join(faults[:3]))
        if not broken:
            broken.append("model evaluation (coqc on generated cases) failed: " + faults[0][-600:])

    # decide
    op_hist, err_hist, nontrivial = {}, {}, set()
    for c, (obs0, steps) in zip(cases, impl):
        changed = False
        prev = obs0
        for o, s in zip(c["ops"], steps):
            op_hist[o[0]] = op_hist.get(o[0], 0) + 1
            if s["out"][0] in ("Raise", "Other"):
                err_hist[s["out"][1]] = err_hist.get(s["out"][1], 0) + 1
            if s["items"] != prev["items"] or s["out"][0] in ("Raise", "DL"):
                changed = True
            prev = s
        if changed:
            nontrivial.add(json.dumps(c, sort_keys=True))

    seen_sigs = set()
    n_fail_cases = 0
    for idx, lst in sorted(res):
        n_fail_cases += 1
        codes = sorted({code for _, code in lst})
        # property violations (2, 3) take precedence over plain disagreement (1)
        want = [c for c in codes if c in (2, 3)] or [1]
        key_pre = (cases[idx]["ops"][min(s for s, _ in lst) - 1][0] if min(s for s, _ in lst) >= 1 else "init",
                   tuple(want))
        if key_pre in seen_sigs and len(seen_sigs) > 0:
            continue
        if len(seen_sigs) >= 12:
            continue
        seen_sigs.add(key_pre)
        small = shrink(cases[idx], set(want)) if not args.replay else cases[idx]
        r2, _, impl2 = evaluate([small])
        codes2 = sorted({code for _, l2 in r2 for _, code in l2}) or codes
        code = next((c for c in codes2 if c in (2, 3)), codes2[0])
        obs0, steps = impl2[0]
        replay = {"case": small, "failed": CODES[code], "codes": codes2,
                  "implementation_observation": {"initial": obs0, "after_each_op": steps},
                  "ids": ALPHA, "how_to_read": "elements are [id_code, object_tag]; ids[id_code] is the identifier; "
                  "dict is the DictList._dict as sorted [id_code, index] pairs (-999 = None)",
                  "theorem": "C15_step / C15_raise_unchanged (coq/theories/Properties/C15.v)"}
        rep.violation(signature(small, code), replay, no_input=(code == 1 and False))

    if broken and rep.violations == 0:      # known findings never hide a broken obligation
        rep.violation({"broken": True}, {"broken_obligations": broken,
                      "note": "proof obligation or correspondence machinery no longer checks; no failing input found"},
                      no_input=True)

    samples = [cases[i] for i in ([0, len(cases) // 2, len(cases) - 1] if cases else [])]
    evidence = {
        "level": "proof",
        "coverage": {
            "obligations": info["obligations"], "discharged": info["discharged"],
            "checker_cmd": info["checker_cmd"],
            "trusted_base": K.TRUSTED_COMMON + [
                "DictList elements are cobra.core.Object instances; `re`-based query strings are not modelled "
                "(predicate queries only)"],
            "axioms_reported_by_Print_Assumptions": info["axioms"],
            "evaluations": len(cases), "distinct_nontrivial": len(nontrivial),
            "rule": "cases = corpus + every single operation (all ops x all arguments over 4 ids, indices -5..5, "
                    "slice bounds/steps listed in harness/c15.py) from every duplicate-free list of length <= 3 "
                    "+ random histories; a case is non-trivial when some step changes the list, raises, or returns "
                    "a new list; distinct = distinct (initial list, op list)",
            "samples": samples,
            "traces_validated_against_impl": len(cases) - n_fail_cases,
            "disagreements_checked": n_fail_cases,
            "exhaustive": bool(exhaustive_n) and not args.replay,
            "exhaustive_space": "single steps from all duplicate-free lists of length<=3 over 4 ids (%d cases)" % exhaustive_n,
            "op_distribution": op_hist, "raise_distribution": err_hist,
            "broken_obligations": broken,
        },
        "assumptions": ["regex queries and element renames while in a list are outside the model",
                        "object identity is modelled by integer tags assigned by the harness"],
    }
    return rep.finish(evidence)


if __name__ == "__main__":
    sys.exit(main())
