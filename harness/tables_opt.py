"""Tables for C04: OPTLANG_TO_EXCEPTIONS_DICT (exceptions.py) and has_primals (util/solver.py)."""
import ast
from tables_lib import section, parse, module_assign, Abort

STATUS = {"OPTIMAL": "Optimal", "INFEASIBLE": "Infeasible", "UNBOUNDED": "Unbounded", "UNDEFINED": "Undefined",
          "FEASIBLE": "FeasibleSt"}
EXN = {"Infeasible": "ExInfeasible", "Unbounded": "ExUnbounded", "FeasibleButNotOptimal": "ExFeasibleButNotOptimal",
       "UndefinedSolution": "ExUndefinedSolution", "OptimizationError": "ExOptimizationError"}


def _status(node):
    # optlang.interface.X  or bare name X
    if isinstance(node, ast.Attribute):
        name = node.attr
    elif isinstance(node, ast.Name):
        name = node.id
    else:
        raise Abort("status constant expected: %s" % ast.dump(node))
    return STATUS.get(name, "OtherSt")


@section("OptTables")
def opt_tables(repo):
    tree, _ = parse(repo, "exceptions.py")
    v = module_assign(tree, "OPTLANG_TO_EXCEPTIONS_DICT")
    if not (isinstance(v, ast.Call) and isinstance(v.func, ast.Name) and v.func.id == "dict" and len(v.args) == 1
            and isinstance(v.args[0], ast.Tuple)):
        raise Abort("OPTLANG_TO_EXCEPTIONS_DICT is not dict((...))")
    pairs = []
    for e in v.args[0].elts:
        if not (isinstance(e, ast.Tuple) and len(e.elts) == 2 and isinstance(e.elts[1], ast.Name)):
            raise Abort("unexpected entry in OPTLANG_TO_EXCEPTIONS_DICT")
        if e.elts[1].id not in EXN:
            raise Abort("unknown exception class %s" % e.elts[1].id)
        pairs.append("(%s, %s)" % (_status(e.elts[0]), EXN[e.elts[1].id]))
    tree2, _ = parse(repo, "util/solver.py")
    hp = module_assign(tree2, "has_primals")
    if not isinstance(hp, ast.List):
        raise Abort("has_primals is not a list literal")
    sts = [_status(e) for e in hp.elts]
    return ("From Cobra.Optimize Require Import Model.\n"
            "Definition exn_table : list (status * exn) := [%s].\n"
            "Definition has_primals : list status := [%s].\n") % ("; ".join(pairs), "; ".join(sts))
