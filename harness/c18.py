"""C18 — medium get/set are inverse and a minimal medium is sufficient and minimal.

Implementation side: Model.medium (getter, setter), Model.exchanges (find_boundary_types / is_boundary_type /
find_external_compartment), all reaction bounds and the raw GLPK column bounds after the assignment;
cobra.medium.minimal_medium (linear and minimize_components, open_exchanges, exports).
Model side (coq/theories/Medium): medium_get / medium_set / is_boundary_type over the regenerated tables, the
LP / MILP built by minimal_medium, the exact oracle's certificates checked by the proved checkers, and the
property monitor evaluated on the implementation's own observations."""
import itertools
import logging
import math
import os
import sys
import warnings
from fractions import Fraction as F

sys.path.insert(0, os.path.dirname(os.path.abspath(__file__)))
import common as K  # noqa: E402
import gennet  # noqa: E402
import lpexact  # noqa: E402
import lpcheck  # noqa: E402

sys.path.insert(0, os.path.join(K.REPO, "src"))

PROP = "C18"
EXTRA_TARGETS = ["theories/Medium/Check.vo"]
HEADER = """From Coq Require Import String QArith List Bool ZArith.
From Cobra.LP Require Import Defs Fba.
From Cobra.Medium Require Import Model Check.
Import ListNotations.
Open Scope Q_scope."""
CASE_TYPE = "c18case"
CODES = {1: "model of medium getter/setter (or exchange classification, or solver variable bounds) and implementation differ",
         2: "a listed exchange's import bound is not the assigned value",
         3: "an unlisted exchange's import is not closed (import bound != min(0, old import bound))",
         4: "an export bound changed",
         5: "something else changed (non-exchange reaction, classification flags, number of reactions)",
         6: "medium read back is not exactly the entries with positive import",
         7: "the setter raised an exception other than KeyError / ValueError",
         9: "exact oracle certificate rejected (harness fault)"}
THEOREMS = ("C18_medium_set_effect, C18_medium_set_bounds, C18_medium_set_get, C18_medium_set_ok_iff "
            "(coq/theories/Properties/C18.v)")
RULE = ("networks with 1-5 exchange reactions in either notation (`A -->` / `--> A`), bounds incl. closed / forced import / "
        "forced export / infinite, boundary reactions that are not exchanges (DM_/SK_ names, internal compartment), SBO "
        "annotations overriding the heuristics; every subset of the exchanges as a medium with values from {0,1/2,3,1000} "
        "(+ rare non-exchange / unknown keys and negative values); non-trivial = the case was executed on both sides and "
        "the dictionary or the set of exchanges is non-empty; distinct = distinct (network, dictionary)")
TRUSTED = ["find_external_compartment (pandas vote) is taken from the implementation and cross-checked to be `e`",
           "floating point: all inputs are dyadic, so get/set observations are compared exactly"]
ASSUMPTIONS = ["optlang/GLPK column bounds are read back with swiglpk and compared with split_bounds of the model state"]
SHARD = 60

SBO = {"exchange": "SBO:0000627", "demand": "SBO:0000628", "sink": "SBO:0000632", "biomass": "SBO:0000629"}
VALUES = [F(0), F(1, 2), F(3), F(1000)]


# ------------------------------------------------------------------ generator
def gen_medium_net(rng, growth=False):
    n_ext = rng.randrange(1, 6)
    n_int = rng.randrange(1, 4)
    ext = ["M%d_e" % i for i in range(n_ext)]
    inn = ["N%d_c" % i for i in range(n_int)]
    rxns = []

    def add(rid, st, lb, ub, sbo=None, obj="0"):
        r = {"id": rid, "st": {k: str(F(v)) for k, v in st.items()}, "lb": lb, "ub": ub, "obj": obj, "gpr": ""}
        if sbo is not None:
            r["sbo"] = sbo
        rxns.append(r)

    def sbo_of(kind_p=0.1):
        if rng.random() < kind_p:
            t = SBO[rng.choice(["exchange", "exchange", "demand", "sink", "biomass"])]
            f = rng.random()
            return t.lower() if f < 0.3 else ([t, "SBO:0000001"] if f < 0.5 else t)
        return None

    fin = lambda xs: gennet.show(rng.choice(xs))  # noqa: E731
    for i, m in enumerate(ext):
        if rng.random() < 0.06:
            continue
        prefix = rng.choices(["EX_", "R_up", "DM_", "SK_", "sink_", "EX_biosynthesis"], [70, 10, 6, 5, 4, 5])[0]
        rid = "%s%d" % (prefix, i)
        u = rng.random()
        imp = None if (not growth and rng.random() < 0.1) else rng.choice([F(0), F(1), F(5), F(10), F(1000)])
        exp = None if (not growth and rng.random() < 0.1) else rng.choice([F(0), F(10), F(1000), F(1000)])
        if u < 0.10 and not growth:      # forced import: import flux in [1, 10]
            imp_lo, imp_hi = F(1), F(10)
            if rng.random() < 0.6:
                add(rid, {m: -1}, gennet.show(-imp_hi), gennet.show(-imp_lo), sbo_of())
            else:
                add(rid, {m: 1}, gennet.show(imp_lo), gennet.show(imp_hi), sbo_of())
        elif u < 0.18 and not growth:    # forced export
            if rng.random() < 0.6:
                add(rid, {m: -1}, "1", "10", sbo_of())
            else:
                add(rid, {m: 1}, "-10", "-1", sbo_of())
        elif rng.random() < 0.6:         # export notation  M -->  : import = -flux
            add(rid, {m: -1}, gennet.show(None if imp is None else -imp, neg=True), gennet.show(exp), sbo_of())
        else:                            # import notation  --> M
            add(rid, {m: 1}, gennet.show(None if exp is None else -exp, neg=True), gennet.show(imp), sbo_of())
    # transports e -> c
    for i, m in enumerate(ext):
        tgt = rng.choice(inn)
        rev = rng.random() < 0.4
        add("T%d" % i, {m: -1, tgt: rng.choice([1, 1, 2, F(1, 2)])}, "-1000" if rev else "0", "1000")
    # internal conversions
    for k in range(rng.randrange(0, 3)):
        if len(inn) >= 2:
            a, b = rng.sample(inn, 2)
            add("C%d" % k, {a: -1, b: 1}, "-1000" if rng.random() < 0.4 else "0", "1000")
    if len(ext) >= 2 and rng.random() < 0.5:   # a reaction needing two imported compounds
        a, b = rng.sample(ext, 2)
        add("J0", {a: -1, b: -1, rng.choice(inn): 1}, "0", "1000")
    # boundary reactions on internal metabolites (never exchanges by compartment, unless annotated)
    for k, m in enumerate(inn):
        u = rng.random()
        if u < 0.25:
            add("DM_c%d" % k, {m: -1}, "0", "1000", sbo_of(0.15))
        elif u < 0.4:
            add("SK_c%d" % k, {m: -1}, "-1" if growth else "-1000", "1000", sbo_of(0.15))
        elif u < 0.5:
            add("EX_in%d" % k, {m: rng.choice([1, -1])}, "-5", "5", sbo_of(0.15))
    tgt = rng.choice(inn)
    add("BIO", {tgt: -1}, "0", "1000", SBO["biomass"] if rng.random() < 0.5 else None, obj="1")
    return {"mets": ext + inn, "rxns": rxns, "dir": "max", "genes": []}


def to_cobra(net, solver="glpk"):
    m = gennet.to_cobra(net, solver)
    for r in net["rxns"]:
        if "sbo" in r:
            m.reactions.get_by_id(r["id"]).annotation["sbo"] = r["sbo"]
    return m


def gen_cases(rng, tier):
    n_nets = 45 if tier == "quick" else 700
    cases = []
    for k in range(n_nets):
        net = gen_medium_net(rng)
        m = to_cobra(net)
        with warnings.catch_warnings():
            warnings.simplefilter("ignore")
            try:
                ex = [r.id for r in m.exchanges]
            except Exception:
                ex = []
        others = [r["id"] for r in net["rxns"] if r["id"] not in ex]
        subsets = list(itertools.chain.from_iterable(itertools.combinations(ex, n) for n in range(len(ex) + 1)))
        if tier == "quick" and len(subsets) > 12:
            subsets = [subsets[0], subsets[-1]] + rng.sample(subsets[1:-1], 10)
        for sub in subsets:
            keys = list(sub)
            rng.shuffle(keys)
            mu = [[k_, str(rng.choice(VALUES))] for k_ in keys]
            u = rng.random()
            if u < 0.04 and others:
                mu.insert(rng.randrange(len(mu) + 1), [rng.choice(others), str(rng.choice(VALUES))])
            elif u < 0.06:
                mu.insert(rng.randrange(len(mu) + 1), ["nope", "1"])
            elif u < 0.09 and mu:
                mu[rng.randrange(len(mu))][1] = "-1"
            cases.append({"kind": "gs", "net": net, "mu": mu})
    return cases


# ------------------------------------------------------------------ Coq printing
def eb_float(x):
    if x is None:
        return None
    x = float(x)
    if math.isinf(x):
        return "PosInf" if x > 0 else "NegInf"
    return "(Fin %s)" % gennet.q(F(x))


def coq_str(s):
    return '"%s"%%string' % s.replace('"', '""')


def b(x):
    return "true" if x else "false"


def world_term(m, net, exch):
    out = []
    for r in net["rxns"]:
        rx = m.reactions.get_by_id(r["id"])
        out.append("mkXr %s %s %s %s %s" % (b(r["id"] in exch), b(bool(rx.reactants)), b(bool(rx.products)),
                                           eb_float(rx.lower_bound), eb_float(rx.upper_bound)))
    return "[" + "; ".join(out) + "]"


def med_term(med, idx):
    items = sorted((idx[k], v) for k, v in med.items())
    return "[" + "; ".join("(%d%%nat, %s)" % (i, "None" if v is None else "Some " + eb_float(v)) for i, v in items) + "]"


def info_term(m, net, ext):
    out = []
    for r in net["rxns"]:
        rx = m.reactions.get_by_id(r["id"])
        s = rx.annotation.get("sbo", "")
        if isinstance(s, list):
            s = s[0]
        out.append("mkRinfo %s %s %s %s %s" % (coq_str(rx.id), coq_str(s.upper()), b(rx.boundary),
                                               b(ext in rx.compartments), b(rx.reversibility)))
    return "[" + "; ".join(out) + "]"


def raw_term(m, net):
    import obsmodel
    cols = {c["name"]: c["bounds"] for c in obsmodel.observe_raw(m)["columns"]}

    def e(s, neg):
        if s is None:
            return "NegInf" if neg else "PosInf"
        return "(Fin %s)" % gennet.q(F(s))
    out = []
    for r in net["rxns"]:
        rx = m.reactions.get_by_id(r["id"])
        f, rv = cols[rx.id], cols[rx.reverse_id]
        out.append("((%s, %s), (%s, %s))" % (e(f[0], True), e(f[1], False), e(rv[0], True), e(rv[1], False)))
    return "[" + "; ".join(out) + "]"


# ------------------------------------------------------------------ get/set cases
def gs_term(case):
    from cobra.medium import find_external_compartment
    net = case["net"]
    ids = [r["id"] for r in net["rxns"]]
    idx = {k: i for i, k in enumerate(ids)}
    mu = [(k, F(v)) for k, v in case["mu"] if k in idx or k == "nope"]
    m = to_cobra(net)
    obs = {}
    with warnings.catch_warnings():
        warnings.simplefilter("ignore")
        exch = {r.id for r in m.exchanges}
        ext = find_external_compartment(m) if m.boundary else "e"
        obs["external_compartment"] = ext
        obs["exchanges"] = sorted(exch)
        w0 = world_term(m, net, exch)
        info = info_term(m, net, ext)
        med0 = dict(m.medium)
        obs["medium_before"] = med0
        exn = "NoExn"
        try:
            m.medium = {k: float(v) for k, v in mu}
        except KeyError:
            exn = "ExKey"
        except ValueError:
            exn = "ExValue"
        except Exception as e:  # noqa
            exn = "ExOther"
            obs["exception"] = "%s: %s" % (type(e).__name__, e)
        obs["exception_kind"] = exn
        exch1 = {r.id for r in m.exchanges}
        w1 = world_term(m, net, exch1)
        med1 = dict(m.medium)
        obs["medium_after"] = med1
        obs["bounds_after"] = {r.id: list(r.bounds) for r in m.reactions}
        raw = raw_term(m, net)
    mu_t = "[" + "; ".join("(%d%%nat, %s)" % (idx.get(k, len(ids)), gennet.q(v)) for k, v in mu) + "]"
    term = "(GS (mkGS %s %s %s %s %s %s %s %s))" % (w0, info, med_term(med0, idx), mu_t, exn, w1, med_term(med1, idx), raw)
    notation = sorted({"export" if F(list(r["st"].values())[0]) < 0 else "import"
                       for r in net["rxns"] if r["id"] in exch})
    return term, {"obs": obs, "nontrivial": bool(mu) or bool(exch),
                  "stats": {"kind": "get/set", "n_exchanges": len(exch), "dict_size": len(mu), "outcome": exn,
                            "notations": "+".join(notation) or "none", "external_compartment_is_e": ext == "e"}}


def case_term(case):
    logging.disable(logging.CRITICAL)
    if case.get("kind", "gs") == "gs":
        return gs_term(case)
    raise ValueError("unknown case kind")


def signature(case, codes):
    return {"kind": case.get("kind", "gs"), "codes": [c for c in codes if c != 9]}


if __name__ == "__main__":
    sys.exit(lpcheck.main(sys.modules[__name__]))
