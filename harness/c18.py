"""C18 — medium get/set are inverse and a minimal medium is sufficient and minimal.

Implementation side: Model.medium (getter, setter), Model.exchanges (find_boundary_types / is_boundary_type /
find_external_compartment), all reaction bounds and the raw GLPK column bounds after the assignment;
cobra.medium.minimal_medium (linear and minimize_components, open_exchanges, exports).
Model side (coq/theories/Medium): medium_get / medium_set / is_boundary_type over the regenerated tables, the
LP / MILP built by minimal_medium, the exact oracle's certificates checked by the proved checkers, and the
property monitor evaluated on the implementation's own observations."""
import itertools
import logging
import math
import os
import sys
import warnings
from fractions import Fraction as F

sys.path.insert(0, os.path.dirname(os.path.abspath(__file__)))
import common as K  # noqa: E402
import gennet  # noqa: E402
import lpexact  # noqa: E402
import lpcheck  # noqa: E402

sys.path.insert(0, os.path.join(K.REPO, "src"))

PROP = "C18"
EXTRA_TARGETS = ["theories/Medium/Check.vo"]
HEADER = """From Coq Require Import String QArith List Bool ZArith.
From Cobra.LP Require Import Defs Fba.
From Cobra.Medium Require Import Model MinMedium Check.
Import ListNotations.
Open Scope Q_scope."""
CASE_TYPE = "c18case"
CODES = {1: "model of medium getter/setter (or exchange classification, or solver variable bounds) and implementation differ",
         2: "a listed exchange's import bound is not the assigned value",
         3: "an unlisted exchange's import is not closed (import bound != min(0, old import bound))",
         4: "an export bound changed",
         5: "something else changed (non-exchange reaction, classification flags, number of reactions)",
         6: "medium read back is not exactly the entries with positive import",
         7: "the setter raised an exception other than KeyError / ValueError",
         9: "exact oracle certificate rejected (harness fault)",
         10: "minimal_medium returned None although a medium suffices, or a medium although none suffices",
         11: "total import of the returned medium is not the certified minimum",
         12: "the returned medium is not sufficient (applied as the medium, the optimum stays below min_objective_value) "
             "or cannot be assigned",
         13: "number of components is not the certified minimum (exhaustive subset enumeration)",
         14: "alternative media are not pairwise different / more than requested / none",
         15: "malformed result (entry for a non-exchange, non-positive entry without exports, wrong number of media)",
         16: "exports: the reported exchange fluxes do not extend to a flux distribution reaching min_objective_value",
         17: "minimal_medium raised, or did not raise where the bounds setter must (open_exchanges < 0)"}
THEOREMS = ("C18_medium_set_effect, C18_medium_set_bounds, C18_medium_set_get, C18_medium_set_ok_iff, C18_min_medium_lp, "
            "C18_medium_sufficient, C18_min_medium_none, C18_min_medium_milp, C18_check_components_sound (coq/theories/Properties/C18.v)")
RULE = ("networks with 1-5 exchange reactions in either notation (`A -->` / `--> A`), bounds incl. closed / forced import / "
        "forced export / infinite, boundary reactions that are not exchanges (DM_/SK_ names, internal compartment), SBO "
        "annotations overriding the heuristics; every subset of the exchanges as a medium with values from {0,1/2,3,1000} "
        "(+ rare non-exchange / unknown keys and negative values); non-trivial = the case was executed on both sides and "
        "the dictionary or the set of exchanges is non-empty; distinct = distinct (network, dictionary).  minimal_medium: "
        "growth networks (all bounds finite) x {linear, minimize_components True/3} x exports x open_exchanges "
        "{False, True, 10, 0} x target {1/4, 1/2, 1 x exact optimum, unachievable}; non-trivial = at least one exchange")
TRUSTED = ["find_external_compartment (pandas vote) is taken from the implementation and cross-checked to be `e`",
           "floating point: all inputs are dyadic, so get/set observations are compared exactly",
           "GLPK LP/MIP answers are validated per instance against certificate-checked exact optima / exhaustive enumeration",
           "harness/lpexact.py only searches for certificates; coq/theories/LP/Cert.v decides them",
           "minimal_medium values compared within 1e-6*max(1,|x|); sufficiency with slack 1e-5*max(1,|t|); "
           "component counts skipped (and counted) when a subset misses the target by less than 1e-5"]
ASSUMPTIONS = ["optlang/GLPK column bounds are read back with swiglpk and compared with split_bounds of the model state",
               "GLPK's simplex and branch-and-cut are not verified: their answers are validated on every explored instance",
               "pairwise distinctness of alternative media is monitored, not proved"]
SHARD = 60

SBO = {"exchange": "SBO:0000627", "demand": "SBO:0000628", "sink": "SBO:0000632", "biomass": "SBO:0000629"}
VALUES = [F(0), F(1, 2), F(3), F(1000)]


# ------------------------------------------------------------------ generator
def gen_medium_net(rng, growth=False):
    n_ext = rng.randrange(1, 6)
    n_int = rng.randrange(1, 4)
    ext = ["M%d_e" % i for i in range(n_ext)]
    inn = ["N%d_c" % i for i in range(n_int)]
    rxns = []

    def add(rid, st, lb, ub, sbo=None, obj="0"):
        r = {"id": rid, "st": {k: str(F(v)) for k, v in st.items()}, "lb": lb, "ub": ub, "obj": obj, "gpr": ""}
        if sbo is not None:
            r["sbo"] = sbo
        rxns.append(r)

    def sbo_of(kind_p=0.1):
        if rng.random() < kind_p:
            t = SBO[rng.choice(["exchange", "exchange", "demand", "sink", "biomass"])]
            f = rng.random()
            return t.lower() if f < 0.3 else ([t, "SBO:0000001"] if f < 0.5 else t)
        return None

    fin = lambda xs: gennet.show(rng.choice(xs))  # noqa: E731
    for i, m in enumerate(ext):
        if rng.random() < 0.06:
            continue
        # (incl. identifiers that contain an exclusion fragment in ANOTHER letter case: asparagine "asn_" ~ "SN_",
        #  "cdm_" ~ "DM_", "Sink" ~ "sink" -- the documented fragments are case-sensitive)
        prefix = rng.choices(["EX_", "R_up", "DM_", "SK_", "sink_", "EX_biosynthesis", "EX_asn_", "EX_cdm_", "EX_Sink"],
                             [62, 10, 6, 5, 4, 5, 3, 3, 2])[0]
        rid = "%s%d" % (prefix, i)
        u = rng.random()
        imp = None if (not growth and rng.random() < 0.1) else rng.choice([F(0), F(1), F(5), F(10), F(1000)])
        exp = None if (not growth and rng.random() < 0.1) else rng.choice([F(0), F(10), F(1000), F(1000)])
        if u < 0.10 and not growth:      # forced import: import flux in [1, 10]
            imp_lo, imp_hi = F(1), F(10)
            if rng.random() < 0.6:
                add(rid, {m: -1}, gennet.show(-imp_hi), gennet.show(-imp_lo), sbo_of())
            else:
                add(rid, {m: 1}, gennet.show(imp_lo), gennet.show(imp_hi), sbo_of())
        elif u < 0.18 and not growth:    # forced export
            if rng.random() < 0.6:
                add(rid, {m: -1}, "1", "10", sbo_of())
            else:
                add(rid, {m: 1}, "-10", "-1", sbo_of())
        elif rng.random() < 0.6:         # export notation  M -->  : import = -flux
            add(rid, {m: -1}, gennet.show(None if imp is None else -imp, neg=True), gennet.show(exp), sbo_of())
        else:                            # import notation  --> M
            add(rid, {m: 1}, gennet.show(None if exp is None else -exp, neg=True), gennet.show(imp), sbo_of())
    # transports e -> c
    for i, m in enumerate(ext):
        tgt = rng.choice(inn)
        rev = rng.random() < 0.4
        add("T%d" % i, {m: -1, tgt: rng.choice([1, 1, 2, F(1, 2)])}, "-1000" if rev else "0", "1000")
    # internal conversions
    for k in range(rng.randrange(0, 3)):
        if len(inn) >= 2:
            a, b = rng.sample(inn, 2)
            add("C%d" % k, {a: -1, b: 1}, "-1000" if rng.random() < 0.4 else "0", "1000")
    if len(ext) >= 2 and rng.random() < 0.5:   # a reaction needing two imported compounds
        a, b = rng.sample(ext, 2)
        add("J0", {a: -1, b: -1, rng.choice(inn): 1}, "0", "1000")
    # boundary reactions on internal metabolites (never exchanges by compartment, unless annotated)
    for k, m in enumerate(inn):
        u = rng.random()
        if u < 0.25:
            add("DM_c%d" % k, {m: -1}, "0", "1000", sbo_of(0.15))
        elif u < 0.4:
            add("SK_c%d" % k, {m: -1}, "-1" if growth else "-1000", "1000", sbo_of(0.15))
        elif u < 0.5:
            add("EX_in%d" % k, {m: rng.choice([1, -1])}, "-5", "5", sbo_of(0.15))
    tgt = rng.choice(inn)
    add("BIO", {tgt: -1}, "0", "1000", SBO["biomass"] if rng.random() < 0.5 else None, obj="1")
    return {"mets": ext + inn, "rxns": rxns, "dir": "max", "genes": []}


def to_cobra(net, solver="glpk"):
    m = gennet.to_cobra(net, solver)
    for r in net["rxns"]:
        if "sbo" in r:
            m.reactions.get_by_id(r["id"]).annotation["sbo"] = r["sbo"]
    return m


def gen_cases(rng, tier):
    n_nets = 70 if tier == "quick" else 700
    cases = []
    for k in range(n_nets):
        net = gen_medium_net(rng)
        m = to_cobra(net)
        with warnings.catch_warnings():
            warnings.simplefilter("ignore")
            try:
                ex = [r.id for r in m.exchanges]
            except Exception:
                ex = []
        others = [r["id"] for r in net["rxns"] if r["id"] not in ex]
        subsets = list(itertools.chain.from_iterable(itertools.combinations(ex, n) for n in range(len(ex) + 1)))
        if tier == "quick" and len(subsets) > 12:
            subsets = [subsets[0], subsets[-1]] + rng.sample(subsets[1:-1], 10)
        for sub in subsets:
            keys = list(sub)
            rng.shuffle(keys)
            mu = [[k_, str(rng.choice(VALUES))] for k_ in keys]
            u = rng.random()
            if u < 0.04 and others:
                mu.insert(rng.randrange(len(mu) + 1), [rng.choice(others), str(rng.choice(VALUES))])
            elif u < 0.06:
                mu.insert(rng.randrange(len(mu) + 1), ["nope", "1"])
            elif u < 0.09 and mu:
                mu[rng.randrange(len(mu))][1] = "-1"
            cases.append({"kind": "gs", "net": net, "mu": mu})
    return cases + gen_mm_cases(rng, tier)


# ------------------------------------------------------------------ Coq printing
def eb_float(x):
    if x is None:
        return None
    x = float(x)
    if math.isinf(x):
        return "PosInf" if x > 0 else "NegInf"
    return "(Fin %s)" % gennet.q(F(x))


def coq_str(s):
    return '"%s"%%string' % s.replace('"', '""')


def b(x):
    return "true" if x else "false"


def world_term(m, net, exch):
    out = []
    for r in net["rxns"]:
        rx = m.reactions.get_by_id(r["id"])
        out.append("mkXr %s %s %s %s %s" % (b(r["id"] in exch), b(bool(rx.reactants)), b(bool(rx.products)),
                                           eb_float(rx.lower_bound), eb_float(rx.upper_bound)))
    return "[" + "; ".join(out) + "]"


def med_term(med, idx):
    items = sorted((idx[k], v) for k, v in med.items())
    return "[" + "; ".join("(%d%%nat, %s)" % (i, "None" if v is None else "Some " + eb_float(v)) for i, v in items) + "]"


def info_term(m, net, ext):
    out = []
    for r in net["rxns"]:
        rx = m.reactions.get_by_id(r["id"])
        s = rx.annotation.get("sbo", "")
        if isinstance(s, list):
            s = s[0]
        out.append("mkRinfo %s %s %s %s %s" % (coq_str(rx.id), coq_str(s.upper()), b(rx.boundary),
                                               b(ext in rx.compartments), b(rx.reversibility)))
    return "[" + "; ".join(out) + "]"


def raw_term(m, net):
    import obsmodel
    cols = {c["name"]: c["bounds"] for c in obsmodel.observe_raw(m)["columns"]}

    def e(s, neg):
        if s is None:
            return "NegInf" if neg else "PosInf"
        return "(Fin %s)" % gennet.q(F(s))
    out = []
    for r in net["rxns"]:
        rx = m.reactions.get_by_id(r["id"])
        f, rv = cols[rx.id], cols[rx.reverse_id]
        out.append("((%s, %s), (%s, %s))" % (e(f[0], True), e(f[1], False), e(rv[0], True), e(rv[1], False)))
    return "[" + "; ".join(out) + "]"


# ------------------------------------------------------------------ get/set cases
def gs_term(case):
    from cobra.medium import find_external_compartment
    net = case["net"]
    ids = [r["id"] for r in net["rxns"]]
    idx = {k: i for i, k in enumerate(ids)}
    mu = [(k, F(v)) for k, v in case["mu"] if k in idx or k == "nope"]
    m = to_cobra(net)
    obs = {}
    with warnings.catch_warnings():
        warnings.simplefilter("ignore")
        exch = {r.id for r in m.exchanges}
        ext = find_external_compartment(m) if m.boundary else "e"
        obs["external_compartment"] = ext
        obs["exchanges"] = sorted(exch)
        w0 = world_term(m, net, exch)
        info = info_term(m, net, ext)
        med0 = dict(m.medium)
        obs["medium_before"] = med0
        exn = "NoExn"
        try:
            m.medium = {k: float(v) for k, v in mu}
        except KeyError:
            exn = "ExKey"
        except ValueError:
            exn = "ExValue"
        except Exception as e:  # noqa
            exn = "ExOther"
            obs["exception"] = "%s: %s" % (type(e).__name__, e)
        obs["exception_kind"] = exn
        exch1 = {r.id for r in m.exchanges}
        w1 = world_term(m, net, exch1)
        med1 = dict(m.medium)
        obs["medium_after"] = med1
        obs["bounds_after"] = {r.id: list(r.bounds) for r in m.reactions}
        raw = raw_term(m, net)
    mu_t = "[" + "; ".join("(%d%%nat, %s)" % (idx.get(k, len(ids)), gennet.q(v)) for k, v in mu) + "]"
    term = "(GS (mkGS %s %s %s %s %s %s %s %s))" % (w0, info, med_term(med0, idx), mu_t, exn, w1, med_term(med1, idx), raw)
    notation = sorted({"export" if F(list(r["st"].values())[0]) < 0 else "import"
                       for r in net["rxns"] if r["id"] in exch})
    return term, {"obs": obs, "nontrivial": bool(mu) or bool(exch),
                  "stats": {"kind": "get/set", "n_exchanges": len(exch), "dict_size": len(mu), "outcome": exn,
                            "notations": "+".join(notation) or "none", "external_compartment_is_e": ext == "e"}}


# ------------------------------------------------------------------ minimal_medium cases
def nb(net):
    return [(gennet.num(r["lb"]), gennet.num(r["ub"])) for r in net["rxns"]]


def cvec(net):
    return [F(r["obj"]) for r in net["rxns"]]


def growth_lp(net, bounds):
    lp = gennet.net_lp(net, obj=cvec(net))
    lp["vb"] = list(bounds)
    return lp


def split_bounds(lb, ub):
    if lb is not None and lb > 0:
        return (lb, ub), (F(0), F(0))
    if ub is not None and ub < 0:
        return (F(0), F(0)), (-ub, None if lb is None else -lb)
    return (F(0), ub), (F(0), None if lb is None else -lb)


def mm_lp(net, bounds, ex, t):
    """The LP of add_linear_obj + medium_obj_constraint in forward/reverse encoding (mirror of MinMedium.mm_lp)."""
    base = gennet.net_lp(net, obj=cvec(net))
    vb, obj = [], []
    for (lb, ub), e in zip(bounds, ex):
        f, r = split_bounds(lb, ub)
        vb += [f, r]
        obj += [F(0), F(-1)] if e is True else ([F(-1), F(0)] if e is False else [F(0), F(0)])

    def dup(row):
        out = []
        for a in row:
            out += [a, -a]
        return out
    rows = [(dup(c), lo, hi) for c, lo, hi in base["rows"]] + [(dup(cvec(net)), t, None)]
    return {"vb": vb, "rows": rows, "obj": obj}


def apply_medium(bounds, ex, mu):
    """Mirror of MinMedium.apply_medium (the setter, reaction by reaction); None = it would raise."""
    out = []
    for j, ((lb, ub), e) in enumerate(zip(bounds, ex)):
        if e is None:
            out.append((lb, ub))
            continue
        if j in mu:
            val = mu[j]
        else:
            old = (None if lb is None else -lb) if e else ub       # import bound, None = +inf
            val = F(0) if (old is None or old >= 0) else old
        if e:
            nl = -val
            if ub is not None and nl > ub:
                return None
            out.append((nl, ub))
        else:
            if lb is not None and lb > val:
                return None
            out.append((lb, val))
    return out


def restrict(bounds, ex, a):
    out = []
    for (lb, ub), e, keep in zip(bounds, ex, a):
        if e is None or keep:
            out.append((lb, ub))
        elif e:
            out.append((F(0) if (lb is None or lb < 0) else lb, ub))
        else:
            out.append((lb, F(0) if (ub is None or ub > 0) else ub))
    return out


def subsets(ex):
    if not ex:
        return [[]]
    rest = subsets(ex[1:])
    if ex[0] is None:
        return [[False] + s for s in rest]
    return [[False] + s for s in rest] + [[True] + s for s in rest]


def pin(bounds, ex, mu):
    out = []
    for j, ((lb, ub), e) in enumerate(zip(bounds, ex)):
        if e is None:
            out.append((lb, ub))
            continue
        val = mu.get(j, F(0))
        x = -val if e else val
        d = F(1, 10 ** 6) * max(F(1), abs(x))
        out.append((x - d if lb is None else max(lb, x - d), x + d if ub is None else min(ub, x + d)))
    return out


def mcert(lp):
    o = lpexact.certified(lp)
    if o[0] == "optimal":
        return "(MOpt %s %s)" % (gennet.vec(o[1]), gennet.vec(o[2])), o
    if o[0] == "infeasible":
        return "(MInf %s)" % gennet.vec(o[1]), o
    return "(MInf [])", o


def scert(lp):
    o = lpexact.certified(lp)
    if o[0] == "optimal":
        return "(SOpt %s %s)" % (gennet.vec(o[1]), gennet.vec(o[2])), o
    if o[0] == "infeasible":
        return "(SInf %s)" % gennet.vec(o[1]), o
    return "(SInf [])", o


def is_dyadic(x):
    d = F(x).denominator
    return d & (d - 1) == 0


def exmap_of(m, net):
    from cobra.medium import find_boundary_types
    exs = {r.id: (len(r.reactants) == 1) for r in find_boundary_types(m, "exchange")}
    return [exs.get(r["id"]) for r in net["rxns"]]


def gen_alt_net(rng):
    """Growth from ONE compound alone or from a PAIR (or triple) jointly: the smallest medium has one component, larger
    ones stay feasible once the small ones are excluded (alternatives requested beyond the number of smallest media)."""
    n_single = rng.randrange(1, 3)
    n_joint = rng.randrange(2, 4)
    ext = ["M%d_e" % i for i in range(n_single + n_joint)]
    rxns = []

    def add(rid, st, lb, ub, obj="0"):
        rxns.append({"id": rid, "st": {k: str(F(v)) for k, v in st.items()}, "lb": lb, "ub": ub, "obj": obj, "gpr": ""})
    for i, m in enumerate(ext):
        cap = rng.choice(["10", "1000"])
        if rng.random() < 0.6:
            add("EX_%d" % i, {m: -1}, "-" + cap, "1000")
        else:
            add("EX_%d" % i, {m: 1}, "-1000", cap)
    byp = []
    for i in range(n_single):
        st = {ext[i]: -1, "N0_c": 1}
        if rng.random() < 0.6:
            # a by-product that has to be secreted, through an exchange WRITTEN AS AN IMPORT (--> B) running backwards
            b_ = "B%d_e" % i
            byp.append(b_)
            st[b_] = 1
            add("EX_B%d" % i, {b_: 1}, "-1000", rng.choice(["0", "10"]))
        add("T%d" % i, st, "0", "1000")
    add("J0", dict([(m, -1) for m in ext[n_single:]] + [("N0_c", 1)]), "0", "1000")
    add("BIO", {"N0_c": -1}, "0", "1000", obj="1")
    return {"mets": ext + byp + ["N0_c"], "rxns": rxns, "dir": "max", "genes": []}


def gen_mm_cases(rng, tier):
    n_nets = 80 if tier == "quick" else 700
    cases = []
    for k in range(6 if tier == "quick" else 40):
        net = gen_alt_net(rng)
        cases.append({"kind": "mm", "net": net, "t": rng.choice(["1", "5", "1/2"]), "open": rng.choice([False, True]),
                      "exports": rng.random() < 0.3, "components": rng.choice([2, 3, 4, 6, False, True])})
    for _ in range(n_nets):
        net = gen_medium_net(rng, growth=True)
        m = to_cobra(net)
        with warnings.catch_warnings():
            warnings.simplefilter("ignore")
            ex = exmap_of(m, net)
        if not any(e is not None for e in ex):
            continue
        for _k in range(4):
            opn = rng.choices([False, True, 10, 0], [60, 20, 15, 5])[0]
            bounds = nb(net)
            if opn is not False and opn != 0:
                B = F(1000) if opn is True else F(opn)
                bounds = [(-B, B) if e is not None else b_ for b_, e in zip(bounds, ex)]
            o = lpexact.certified(growth_lp(net, bounds))
            if o[0] != "optimal":
                t = F(1, 2)
            else:
                g = sum(c * x for c, x in zip(cvec(net), o[1]))
                if g <= 0:
                    t = F(1, 2)
                else:
                    fr = rng.choice([F(1, 4), F(1, 2), F(1), F(3)] if is_dyadic(g) else [F(1, 4), F(1, 2), F(3, 4), F(3)])
                    t = F(float(g * fr)) if fr < 3 else F(float(2 * g + 1))
            comp = rng.choices([False, True, 2, 3, 6], [45, 25, 8, 12, 10])[0]
            cases.append({"kind": "mm", "net": net, "t": str(t), "open": opn, "exports": rng.random() < 0.35,
                          "components": comp})
    return cases


def mm_term(case):
    from cobra.medium import minimal_medium
    import pandas as pd
    net = case["net"]
    ids = [r["id"] for r in net["rxns"]]
    idx = {k: i for i, k in enumerate(ids)}
    t = F(case["t"])
    opn, exports, comp = case["open"], case["exports"], case["components"]
    m = to_cobra(net)
    obs = {}
    with warnings.catch_warnings():
        warnings.simplefilter("ignore")
        ex = exmap_of(m, net)
        raised = False
        try:
            res = minimal_medium(m, float(t), exports=exports, minimize_components=comp, open_exchanges=opn)
        except Exception as e:  # noqa
            raised, res = True, None
            obs["exception"] = "%s: %s" % (type(e).__name__, e)
    media = None
    if res is not None:
        cols = [res] if isinstance(res, pd.Series) else [res[c] for c in res.columns]
        media = []
        for col in cols:
            mu = {idx[k]: F(float(v)) for k, v in col.items() if float(v) != 0.0}
            media.append(mu)
        obs["result"] = [{ids[j]: float(v) for j, v in mu.items()} for mu in media]
    else:
        obs["result"] = None
    bounds = nb(net)
    open_t = "None"
    if opn is not False:
        B = F(1000) if opn is True else F(opn)
        open_t = "(Some %s)" % gennet.q(B)
        if B != 0:
            bounds = [(-B, B) if e is not None else b_ for b_, e in zip(bounds, ex)]
    oracle_t, oracle = mcert(mm_lp(net, bounds, ex, t))
    suff, pins = [], []
    for mu in (media or []):
        pos = {j: v for j, v in mu.items() if v > 0}
        nb2 = apply_medium(bounds, ex, pos)
        suff.append("(MInf [])" if nb2 is None else mcert(growth_lp(net, nb2))[0])
        if exports:
            pins.append(mcert(growth_lp(net, pin(bounds, ex, mu)))[0])
    certs = []
    k = 0 if comp is False else (1 if comp is True else int(comp))
    n_exact = None
    ill = False
    if k > 0 and oracle[0] == "optimal":
        best = None
        for a in subsets(ex):
            ct, o = scert(growth_lp(net, restrict(bounds, ex, a)))
            certs.append(ct)
            if o[0] == "optimal":
                g = sum(c * x for c, x in zip(cvec(net), o[1]))
                if g >= t:
                    n = sum(a)
                    best = n if best is None else min(best, n)
                elif g > t - F(1, 10 ** 5) * max(1, abs(t)):
                    ill = True            # a subset misses the target by less than the tolerance: envelope rule
        n_exact = best
    if ill:
        return None, {"obs": obs, "skipped": True, "stats": {"kind": "minimal_medium", "ill_conditioned": True}}

    def med_t(mu):
        return "[" + "; ".join("(%d%%nat, %s)" % (j, gennet.q(v)) for j, v in sorted(mu.items())) + "]"
    res_t = "None" if media is None else "(Some [%s])" % "; ".join(med_t(mu) for mu in media)
    ex_t = "[" + "; ".join("None" if e is None else "Some %s" % b(e) for e in ex) + "]"
    term = "(MM (mkMM %s %s %s %s %s %d%%nat %s %s %s [%s] [%s] [%s]))" % (
        gennet.coq_net(net), ex_t, gennet.q(t), open_t, b(exports), k, b(raised), res_t, oracle_t,
        "; ".join(suff), "; ".join(pins), "; ".join(certs))
    obs["exact_min_total_import"] = None if oracle[0] != "optimal" else float(-sum(
        c * x for c, x in zip(mm_lp(net, bounds, ex, t)["obj"], oracle[1])))
    obs["exact_min_components"] = n_exact
    return term, {"obs": obs, "nontrivial": True,
                  "stats": {"kind": "minimal_medium", "n_exchanges": sum(e is not None for e in ex),
                            "mode": "components" if k else "linear", "alternatives_requested": k,
                            "open_exchanges": str(opn), "exports": exports,
                            "verdict": "achievable" if oracle[0] == "optimal" else "unachievable",
                            "returned": "None" if media is None else "%d medium/media" % len(media)}}


def case_term(case):
    logging.disable(logging.CRITICAL)
    if case.get("kind", "gs") == "gs":
        return gs_term(case)
    if case["kind"] == "mm":
        return mm_term(case)
    raise ValueError("unknown case kind")


def signature(case, codes):
    return {"kind": case.get("kind", "gs"), "codes": [c for c in codes if c != 9]}


if __name__ == "__main__":
    sys.exit(lpcheck.main(sys.modules[__name__]))
