"""Fills the generated tables of DESIGN.md (fixed defects, known findings, seeded changes)."""
import glob
import json
import os
import re
V = os.path.dirname(os.path.dirname(os.path.abspath(__file__)))


def put(text, tag, body):
    return re.sub(r"<!-- %s-BEGIN -->.*?<!-- %s-END -->" % (tag, tag),
                  lambda _m: "<!-- %s-BEGIN -->\n%s\n<!-- %s-END -->" % (tag, body, tag), text, flags=re.S)


def main():
    kf = json.load(open(os.path.join(V, "known_findings.json")))
    rows = ["| property | commit | what failed |", "|---|---|---|"]
    for l in kf["fixed"]:
        m = re.match(r"fixed: property=(\S+) (\S+) (.*)", l)
        rows.append("| %s | `%s` | %s |" % (m.group(1), m.group(2), m.group(3).replace("|", "\\|")))
    fixed = "\n".join(rows) + "\n\n(%d fix commits.)" % len(kf["fixed"])
    rows = ["| property | key | what fails |", "|---|---|---|"]
    for f in kf["findings"]:
        rows.append("| %s | `%s` | %s |" % (f["property"], f["key"], f["what_fails"].replace("|", "\\|")[:400]))
    known = "\n".join(rows)
    dp = os.path.join(V, "seeded", "dispositions.json")
    DISP = json.load(open(dp)) if os.path.exists(dp) else {}
    rows = ["| change | what it breaks / needs | demo with/without | suite | own check (quick) |", "|---|---|---|---|---|"]
    n = caught = 0
    for p in sorted(glob.glob(os.path.join(V, "seeded", "*", "meta.json"))):
        m = json.load(open(p))
        c = m.get("confirmed", {})
        name = os.path.basename(os.path.dirname(p))
        prop = m.get("property")
        chk = c.get("checks", {}).get(prop, {})
        ok_demo = c.get("demo_exit_with_change", 0) != 0 and c.get("demo_exit_without_change", 1) == 0
        suite = c.get("testsuite_last_line", "")
        suite_ok = "497 passed" in suite
        res = "**caught** (exit %s, %s VIOLATION line(s)%s)" % (
            chk.get("exit"), chk.get("violation_lines"),
            ", no-failing-input-found" if chk.get("no_failing_input_found") and chk.get("violation_lines") == chk.get("no_failing_input_found") else "") \
            if chk.get("exit") == 1 and chk.get("violation_lines", 0) > 0 else "**missed** (exit %s)" % chk.get("exit")
        disp = DISP.get(name) or m.get("disposition")
        if disp:
            res += " — " + disp
        n += 1
        caught += 1 if "caught" in res else 0
        rows.append("| `%s` | %s — needs: %s | %s | %s | %s |" % (
            name, str(m.get("summary", "")).replace("|", "\\|")[:260], str(m.get("needs", "")).replace("|", "\\|")[:220],
            "fails / passes" if ok_demo else "NOT CONFIRMED (%s/%s)" % (c.get("demo_exit_with_change"), c.get("demo_exit_without_change")),
            "passes" if suite_ok else suite[:40], res))
    seeded = "\n".join(rows) + "\n\n%d of %d confirmed changes are caught by the property's own quick check." % (caught, n)
    p = os.path.join(V, "DESIGN.md")
    t = open(p).read()
    t = put(t, "FIXED", fixed)
    t = put(t, "KNOWN", known)
    t = put(t, "SEEDED", seeded)
    open(p, "w").write(t)


if __name__ == "__main__":
    main()
