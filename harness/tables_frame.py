"""C13 -- fail-closed translator: analysis entry points of /repo/src/cobra -> mutation skeletons
(coq/theories/Gen/Skeletons.v, terms of Cobra.Frame.Model.sk).

What it does (Python `ast` only, cobra is never imported):
  * derives the *classification tables* from the source of the mutators themselves
    (util/context.py `resettable`, the @resettable decorators of the Reaction / Gene / Model property
    setters, `set_objective`, `add_cons_vars_to_problem`, `remove_cons_vars_from_problem`, the
    context-aware Model methods): does the mutator register an undo at all, and before or after
    it writes;
  * walks every entry point statement by statement, inlining every call it can resolve inside the
    analysed modules (functions, nested functions, classes/methods incl. super()), tracking which
    names denote the model, a copy of it, or something derived from either, and emits
    `with model:` -> With, recorded mutators -> Op/OpLate, unrecorded writes -> Raw,
    `x = model.objective.direction` ... `model.objective.direction = x` -> Save/Restore,
    solver.optimize() -> Solve, other calls -> MayRaise, if -> Choice, loops -> Loop,
    try/finally/except, return/raise/break/continue, mutations of copies -> OnCopy;
  * aborts (the generated file disappears, so the proof obligation breaks) on a mutating shape it
    does not know: unknown attribute assignment on the model or an object reached from it, unknown
    mutating method on an attribute chain of the model, the model passed to an unknown function.

Resource kinds: KBounds KObjective KDirection KConsVars (which extra variables/constraints exist)
KConsAttr (their bounds/coefficients) KGenes KContent KSolver."""
import ast
import os

from tables_lib import section, Abort

MODULES = {
    "model": "core/model.py", "solver": "util/solver.py", "reaction": "core/reaction.py", "gene": "core/gene.py",
    "context": "util/context.py",
    "variability": "flux_analysis/variability.py", "parsimonious": "flux_analysis/parsimonious.py",
    "moma": "flux_analysis/moma.py", "room": "flux_analysis/room.py", "loopless": "flux_analysis/loopless.py",
    "deletion": "flux_analysis/deletion.py", "geometric": "flux_analysis/geometric.py",
    "phenotype_phase_plane": "flux_analysis/phenotype_phase_plane.py", "fa_reaction": "flux_analysis/reaction.py",
    "gapfilling": "flux_analysis/gapfilling.py", "fastcc": "flux_analysis/fastcc.py",
    "helpers": "flux_analysis/helpers.py",
    "minimal_medium": "medium/minimal_medium.py",
    "hr_sampler": "sampling/hr_sampler.py", "achr": "sampling/achr.py", "optgp": "sampling/optgp.py",
    "sampling": "sampling/sampling.py",
    "summary": "summary/summary.py", "model_summary": "summary/model_summary.py",
    "metabolite_summary": "summary/metabolite_summary.py", "reaction_summary": "summary/reaction_summary.py",
}
# modules whose functions are never inlined (their mutators are primitives classified from their source)
PRIMITIVE_MODULES = {"context", "reaction", "gene"}

# (display name, module, class or None, function, name of the parameter that is the model)
ENTRIES = [
    ("optimize", "model", "Model", "optimize", "self"),
    ("slim_optimize", "model", "Model", "slim_optimize", "self"),
    ("model_summary", "model", "Model", "summary", "self"),
    ("flux_variability_analysis", "variability", None, "flux_variability_analysis", "model"),
    ("find_blocked_reactions", "variability", None, "find_blocked_reactions", "model"),
    ("find_essential_genes", "variability", None, "find_essential_genes", "model"),
    ("find_essential_reactions", "variability", None, "find_essential_reactions", "model"),
    ("pfba", "parsimonious", None, "pfba", "model"),
    ("moma", "moma", None, "moma", "model"),
    ("room", "room", None, "room", "model"),
    ("geometric_fba", "geometric", None, "geometric_fba", "model"),
    ("loopless_solution", "loopless", None, "loopless_solution", "model"),
    ("loopless_fva_iter", "loopless", None, "loopless_fva_iter", "model"),
    ("single_reaction_deletion", "deletion", None, "single_reaction_deletion", "model"),
    ("single_gene_deletion", "deletion", None, "single_gene_deletion", "model"),
    ("double_reaction_deletion", "deletion", None, "double_reaction_deletion", "model"),
    ("double_gene_deletion", "deletion", None, "double_gene_deletion", "model"),
    ("production_envelope", "phenotype_phase_plane", None, "production_envelope", "model"),
    ("assess", "fa_reaction", None, "assess", "model"),
    ("assess_component", "fa_reaction", None, "assess_component", "model"),
    ("minimal_medium", "minimal_medium", None, "minimal_medium", "model"),
    ("gapfill", "gapfilling", None, "gapfill", "model"),
    ("fastcc", "fastcc", None, "fastcc", "model"),
    ("sample", "sampling", None, "sample", "model"),
    ("metabolite_summary", "metabolite_summary", "MetaboliteSummary", "__init__", "model"),
    ("reaction_summary", "reaction_summary", "ReactionSummary", "__init__", "model"),
]
# entries that the unchanged tree is *known* not to pass (genuine defects, see fixes/*.md); an entry
# listed here whose skeleton passes again is simply no longer an exception.
KNOWN_EXCEPTIONS_FILE = os.path.join(os.path.dirname(os.path.abspath(__file__)), "c13_exceptions.json")

PURE_FUNCS = {
    # cobra helpers that only read the model
    "get_solution", "linear_reaction_coefficients", "check_solver_status", "assert_optimal", "normalize_cutoff",
    "find_boundary_types", "create_stoichiometric_matrix", "nullspace", "constraint_matrices", "interface_to_str",
    "choose_solver", "get_context", "get_solver_name", "_valid_atoms", "check_solver",
    # the pool pickles the model into the worker processes: the workers act on copies
    "ProcessPool",
}
BUILTIN_PURE = {
    "len", "list", "set", "frozenset", "dict", "tuple", "max", "min", "sum", "abs", "enumerate", "sorted", "zip",
    "iter", "next", "isinstance", "hasattr", "getattr", "str", "float", "int", "bool", "range", "filter", "product",
    "chain", "attrgetter", "type", "print", "repr", "any", "all", "round", "reversed", "id", "warn", "isinf", "Solution",
}
NORAISE_FUNCS = {"len", "isinstance", "hasattr", "list", "set", "dict", "tuple", "frozenset", "range", "str", "bool",
                 "print", "repr", "id", "type", "warn", "enumerate", "zip", "sorted", "partial", "attrgetter"}
NORAISE_RECV = {"logger", "logging", "warnings"}
NORAISE_METHODS = {"append", "extend", "items", "keys", "values", "format", "join", "get", "update", "add", "copy",
                   "lower", "startswith", "debug", "info", "warning"}
RAISING_ATTRS = {"flux", "reduced_cost", "shadow_price", "x", "y", "primal", "dual", "fluxes"}
CONTAINER_MUTATORS = {"add", "remove", "append", "extend", "insert", "pop", "clear", "update", "discard", "sort",
                      "reverse", "setdefault", "popitem", "__setitem__", "__delitem__", "__iadd__", "__isub__",
                      "__imul__", "union"}
OBJECT_MUTATORS_UNMODELLED = {"add_metabolites", "subtract_metabolites", "remove_from_model", "delete",
                              "build_reaction_from_string", "update_genes_from_gpr", "update_variable_bounds",
                              "repair", "merge", "remove_genes", "rename_genes", "_populate_solver", "_associate_gene",
                              "_dissociate_gene", "_set_id_with_model"}
MODEL_CONTENT_METHODS = {"add_boundary", "add_reactions", "add_metabolites", "remove_reactions", "remove_metabolites",
                         "add_groups", "remove_groups"}
SAFE_T_ATTRS = {"objective_value", "gapfilling_type", "cost", "rxn_id", "name"}
KINDS = ["KBounds", "KObjective", "KDirection", "KConsVars", "KConsAttr", "KGenes", "KContent", "KSolver"]


# ------------------------------------------------------------------------------ source

class Source:
    def __init__(self, repo):
        self.repo = repo
        self.trees, self.funcs, self.classes, self.imports = {}, {}, {}, {}
        for key, rel in MODULES.items():
            p = os.path.join(repo, "src", "cobra", rel)
            tree = ast.parse(open(p).read(), p)
            self.trees[key] = tree
            self.imports[key] = {}
            for node in tree.body:
                if isinstance(node, (ast.FunctionDef,)):
                    self.funcs[(key, None, node.name)] = node
                elif isinstance(node, ast.ClassDef):
                    self.classes[node.name] = (key, node)
                    for sub in node.body:
                        if isinstance(sub, ast.FunctionDef):
                            # property setters are stored under "<name>.setter"
                            nm = sub.name
                            for d in sub.decorator_list:
                                if isinstance(d, ast.Attribute) and d.attr == "setter":
                                    nm = sub.name + ".setter"
                            self.funcs[(key, node.name, nm)] = sub
                elif isinstance(node, ast.ImportFrom):
                    for a in node.names:
                        self.imports[key][a.asname or a.name] = a.name
                elif isinstance(node, ast.If):   # TYPE_CHECKING imports
                    pass

    def resolve_func(self, modkey, name):
        """top-level function `name` as seen from module modkey -> (modkey', def) or None"""
        name = self.imports[modkey].get(name, name)
        if (modkey, None, name) in self.funcs:
            return modkey, self.funcs[(modkey, None, name)]
        hits = [(k[0], f) for k, f in self.funcs.items() if k[1] is None and k[2] == name
                and k[0] not in PRIMITIVE_MODULES]
        if len(hits) == 1:
            return hits[0]
        if len(hits) > 1:
            raise Abort("ambiguous function name %s" % name)
        return None

    def method(self, cls, name):
        """look up method through the (single-inheritance, by name) class chain -> (defining class, modkey, def)"""
        seen = 0
        while cls in self.classes and seen < 10:
            key, node = self.classes[cls]
            if (key, cls, name) in self.funcs:
                return cls, key, self.funcs[(key, cls, name)]
            bases = [b.id for b in node.bases if isinstance(b, ast.Name) and b.id in self.classes]
            if not bases:
                return None
            cls, seen = bases[0], seen + 1
        return None

    def base_of(self, cls):
        key, node = self.classes[cls]
        bases = [b.id for b in node.bases if isinstance(b, ast.Name) and b.id in self.classes]
        return bases[0] if bases else None


def _calls(node, name):
    return [c for c in ast.walk(node) if isinstance(c, ast.Call) and isinstance(c.func, ast.Name) and c.func.id == name]


def derive_tables(src):
    """flavours of the recording mutators, read from their own source"""
    T = {}
    # resettable: context(partial(func, self, old_value)) before func(self, new_value)?
    res = src.funcs[("context", None, "resettable")]
    wrapper = [n for n in res.body if isinstance(n, ast.FunctionDef) and n.name == "wrapper"]
    if not wrapper:
        raise Abort("resettable.wrapper not found")
    wrapper = wrapper[0]
    reg = app = None
    for i, st in enumerate(wrapper.body):
        if _calls(st, "context") and reg is None:
            reg = i
        if _calls(st, "func") and not _calls(st, "context") and app is None:
            app = i
    if app is None:
        raise Abort("resettable.wrapper does not call func")
    T["resettable"] = "raw" if reg is None else ("first" if reg < app else "late")
    hm = src.classes.get("HistoryManager")
    if hm is None:
        raise Abort("HistoryManager not found")
    reset = [n for n in hm[1].body if isinstance(n, ast.FunctionDef) and n.name == "reset"]
    if not reset or "pop()" not in ast.unparse(reset[0]):
        raise Abort("HistoryManager.reset does not pop its history (LIFO replay is what the model assumes)")
    ex = src.funcs[("model", "Model", "__exit__")]
    txt = ast.unparse(ex)
    if "_contexts.pop()" not in txt or ".reset()" not in txt:
        raise Abort("Model.__exit__ does not pop and reset the top context")

    def prop(mod, cls, name):
        f = src.funcs.get((mod, cls, name + ".setter"))
        if f is None:
            raise Abort("%s.%s setter not found" % (cls, name))
        dec = any(isinstance(d, ast.Name) and d.id == "resettable" for d in f.decorator_list)
        return T["resettable"] if dec else "raw"
    for nm in ("bounds", "lower_bound", "upper_bound"):
        T["Reaction." + nm] = prop("reaction", "Reaction", nm)
    T["Gene.functional"] = prop("gene", "Gene", "functional")
    T["Model.objective_direction"] = prop("model", "Model", "objective_direction")
    T["Model.solver"] = prop("model", "Model", "solver")

    def recorded(f, mutation_pred):
        regs = [i for i, st in enumerate(f.body) if _calls(st, "context")]
        muts = [i for i, st in enumerate(f.body) if mutation_pred(st)]
        if not muts:
            raise Abort("%s: no mutation found" % f.name)
        if not regs:
            return "raw"
        return "first" if regs[0] < muts[0] else "late"
    if T["Model.solver"] == "raw":
        # not @resettable (repair a887c04): the setter records its own undo (the old solver object is put back)
        # before it replaces self._solver
        fs = src.funcs[("model", "Model", "solver.setter")]
        T["Model.solver"] = recorded(fs, lambda st: isinstance(st, ast.Assign) and "self._solver" in
                                     [ast.unparse(t) for t in st.targets])
    for nm, meth in (("add_cons_vars_to_problem", "add"), ("remove_cons_vars_from_problem", "remove")):
        f = src.funcs[("solver", None, nm)]
        T[nm] = recorded(f, lambda st, meth=meth: ("model.solver.%s(" % meth) in ast.unparse(st)
                         and not _calls(st, "context"))
    f = src.funcs[("solver", None, "set_objective")]

    def walk_no_defs(n):
        yield n
        for c in ast.iter_child_nodes(n):
            if not isinstance(c, (ast.FunctionDef, ast.Lambda)):
                yield from walk_no_defs(c)
    T["set_objective"] = recorded(f, lambda st: not isinstance(st, ast.FunctionDef) and any(
        isinstance(n, (ast.Assign, ast.AugAssign)) and "model.solver.objective" in ast.unparse(
            n.targets[0] if isinstance(n, ast.Assign) else n.target) for n in walk_no_defs(st)))
    rs = [n for n in ast.walk(f) if isinstance(n, ast.FunctionDef) and n.name == "reset"]
    rtxt = ast.unparse(rs[0]) if rs else ""
    T["set_objective.undo_restores"] = [k for k, pat in (("KObjective", "model.solver.objective = "),
                                                         ("KDirection", "model.solver.objective.direction = "))
                                        if pat in rtxt]
    for m in ("add_cons_vars", "remove_cons_vars"):
        f = src.funcs[("model", "Model", m)]
        target = {"add_cons_vars": "add_cons_vars_to_problem", "remove_cons_vars": "remove_cons_vars_from_problem"}[m]
        if not _calls(f, target):
            raise Abort("Model.%s no longer delegates to %s" % (m, target))
        T["Model." + m] = T[target]
    for m in sorted(MODEL_CONTENT_METHODS):
        f = src.funcs[("model", "Model", m)]
        txt = ast.unparse(f)
        rec = "get_context(self)" in txt and "context(" in txt.replace("get_context(", "")
        deleg = any(("self.%s(" % d) in txt for d in MODEL_CONTENT_METHODS if d != m)
        T["Model." + m] = "first" if (rec or deleg) else "raw"   # content mutators: recorded or not is what matters
    return T


# ------------------------------------------------------------------------------ skeleton terms

def seq(items):
    out = []
    for it in items:
        if it is None or it == ("Skip",):
            continue
        if it[0] == "Seq":
            out.extend(it[1])
        else:
            out.append(it)
    # collapse runs of MayRaise
    res = []
    for it in out:
        if it == ("MayRaise",) and res and res[-1] == ("MayRaise",):
            continue
        res.append(it)
    if not res:
        return ("Skip",)
    if len(res) == 1:
        return res[0]
    return ("Seq", res)


def always_leaves(sk):
    return sk[0] in ("Return", "Raise", "Break", "Continue") or (sk[0] == "Seq" and always_leaves(sk[1][-1]))


def size(sk):
    n = 1
    for x in sk[1:]:
        if isinstance(x, tuple):
            n += size(x)
        elif isinstance(x, list):
            n += sum(size(y) for y in x)
    return n


def has_effect(sk):
    """anything besides control flow that cannot change or leave anything?"""
    if sk[0] in ("Skip",):
        return False
    if sk[0] == "Seq":
        return any(has_effect(x) for x in sk[1])
    return True


def coq(sk):
    h = sk[0]
    if h in ("Skip", "Solve", "MayRaise", "Return", "Raise", "Break", "Continue"):
        return h
    if h == "Seq":
        return "(seqs [" + "; ".join(coq(x) for x in sk[1]) + "])"
    if h in ("Op", "OpLate", "Raw"):
        return "(%s %s)" % (h, sk[1])
    if h in ("Save", "Restore"):
        return "(%s %d %s)" % (h, sk[1], sk[2])
    if h in ("With", "Loop", "OnCopy", "Scope"):
        return "(%s %s)" % (h, coq(sk[1]))
    if h in ("Choice", "TryFinally", "TryCatch"):
        return "(%s %s %s)" % (h, coq(sk[1]), coq(sk[2]))
    raise Abort("bad skeleton node %r" % (h,))


# ------------------------------------------------------------------------------ translation

class Inst:
    """an instance of a class of the analysed modules (GapFiller, a sampler, a summary)"""
    def __init__(self, cls):
        self.cls = cls
        self.attrs = {}      # attribute -> origin


class Env:
    def __init__(self, modkey, cls=None):
        self.modkey, self.cls = modkey, cls
        self.origin = {}         # name -> 'M' | 'C' | 'MA' | 'CA' | 'T' | 'TC'
        self.none = set()        # names known to be None
        self.truthy = set()      # names known to be true (inside `while name:`)
        self.funcrefs = {}       # name -> [("func", modkey, def) | ("local", def, env)]
        self.instances = {}      # name -> [Inst]
        self.localdefs = {}      # nested function name -> def
        self.objalias = set()    # names bound to model.objective
        self.saves = {}          # name -> (slot, kind)
        self.params = set()
        self.assigned = {}       # name -> number of plain assignments in the current function
        self.self_inst = None
        self.globals = set()

    def child(self):
        e = Env(self.modkey, self.cls)
        e.origin, e.none, e.funcrefs = dict(self.origin), set(self.none), dict(self.funcrefs)
        e.truthy = set(self.truthy)
        e.instances, e.localdefs, e.objalias = dict(self.instances), dict(self.localdefs), set(self.objalias)
        e.self_inst = self.self_inst
        return e


def join_origin(a, b):
    order = ["M", "C", "MA", "CA", "T", "TC"]
    if a is None:
        return b
    if b is None:
        return a
    if a == b:
        return a
    model_side = {"M", "MA", "T"}
    if a in model_side or b in model_side:
        return "T"
    return "TC"


def derived(o):
    return {"M": "MA", "C": "CA", "MA": "MA", "CA": "CA", "T": "T", "TC": "TC"}.get(o)


def tainted(o):
    return {"M": "T", "C": "TC", "MA": "T", "CA": "TC", "T": "T", "TC": "TC"}.get(o)


class Translator:
    def __init__(self, src, tables):
        self.src, self.T = src, tables
        self.slot = 0
        self.stack = []
        self.module_globals = {}    # (modkey, name) -> origin
        self.log = []               # classification decisions actually used: (where, shape, result)
        self.used = {}

    # ---- origins
    def origin(self, e, env):
        if e is None:
            return None
        if isinstance(e, ast.Name):
            if e.id in env.globals or (e.id not in env.origin and (env.modkey, e.id) in self.module_globals):
                return self.module_globals.get((env.modkey, e.id), env.origin.get(e.id))
            return env.origin.get(e.id)
        if isinstance(e, ast.Attribute):
            if isinstance(e.value, ast.Name) and e.value.id == "self" and env.self_inst is not None:
                if e.attr in env.self_inst.attrs:
                    return env.self_inst.attrs[e.attr]
                return None
            return derived(self.origin(e.value, env))
        if isinstance(e, ast.Subscript):
            return tainted(self.origin(e.value, env))
        if isinstance(e, ast.Call):
            if isinstance(e.func, ast.Attribute):
                ro = self.origin(e.func.value, env)
                if e.func.attr == "copy" and ro in ("M", "C"):
                    return "C"
                o = tainted(ro)
            else:
                o = None
            for a in list(e.args) + [k.value for k in e.keywords]:
                o = join_origin(o, tainted(self.origin(a, env)))
            return o
        if isinstance(e, ast.IfExp):
            a, b = self.origin(e.body, env), self.origin(e.orelse, env)
            return a if a == b else join_origin(tainted(a), tainted(b))
        if isinstance(e, ast.BoolOp):
            o = None
            for v in e.values:
                o = join_origin(o, tainted(self.origin(v, env)))
            return o
        if isinstance(e, (ast.Tuple, ast.List, ast.Set)):
            o = None
            for v in e.elts:
                o = join_origin(o, tainted(self.origin(v, env)))
            return o
        if isinstance(e, ast.Dict):
            o = None
            for v in list(e.keys) + list(e.values):
                o = join_origin(o, tainted(self.origin(v, env)))
            return o
        if isinstance(e, (ast.ListComp, ast.SetComp, ast.GeneratorExp, ast.DictComp)):
            o = None
            for g in e.generators:
                o = join_origin(o, tainted(self.origin(g.iter, env)))
            return o
        if isinstance(e, ast.Starred):
            return self.origin(e.value, env)
        if isinstance(e, ast.BinOp):
            return join_origin(tainted(self.origin(e.left, env)), tainted(self.origin(e.right, env)))
        return None

    def note(self, shape, result):
        self.used[shape] = result

    def on(self, o, sk):
        """wrap an effect according to whose object it touches"""
        if o in ("C", "CA", "TC"):
            return ("OnCopy", sk)
        return sk

    def flavoured(self, key, kind):
        fl = self.T[key]
        if kind == "KConsVars":
            # adding/removing variables and constraints: the undo removes/re-adds the objects, which also
            # discards / brings back whatever was edited on them
            return seq([("Raw" if fl == "raw" else "Op", "KConsVars"), ("Raw" if fl == "raw" else "Op", "KConsAttr")])
        return ("Raw", kind) if fl == "raw" else ("Op", kind)

    # ---- primitives
    def objective_set(self, value, env):
        fl = self.T["set_objective"]
        kinds = self.T["set_objective.undo_restores"]
        late = False
        if fl == "late":
            names = {n.id for n in ast.walk(value) if isinstance(n, ast.Name)} if value is not None else set()
            if isinstance(value, (ast.Name, ast.IfExp)) and any(
                    n in env.params and n not in env.none and env.assigned.get(n, 0) == 0 for n in names):
                late = True
        out = []
        for k in ("KObjective", "KDirection"):
            if fl == "raw" or k not in kinds:
                out.append(("Raw", k))
            else:
                out.append(("OpLate" if late else "Op", k))
        self.note("<model>.objective = v  (set_objective: %s%s)" % (fl, ", value passed through from a parameter"
                  if late else ""), " ; ".join("%s %s" % x for x in out))
        return seq(out)

    def knock_out(self, recv_txt):
        rxn = self.flavoured("Reaction.bounds", "KBounds")
        gene = seq([self.flavoured("Gene.functional", "KGenes"), ("Loop", ("Choice", rxn, ("Skip",)))])
        # check the bodies still have the modelled shape
        rk = ast.unparse(self.src.funcs[("reaction", "Reaction", "knock_out")])
        gk = ast.unparse(self.src.funcs[("gene", "Gene", "knock_out")])
        if "self.bounds = (0, 0)" not in rk:
            raise Abort("Reaction.knock_out no longer `self.bounds = (0, 0)`")
        if "self.functional = False" not in gk or "reaction.bounds = (0, 0)" not in gk:
            raise Abort("Gene.knock_out has an unrecognised body")
        if ".genes" in recv_txt and ".reactions" not in recv_txt:
            r = gene
        elif ".reactions" in recv_txt and ".genes" not in recv_txt:
            r = rxn
        else:
            r = ("Choice", rxn, gene)
        self.note("<x>.knock_out()", "reaction: %s ; gene: %s" % (coq(rxn), coq(gene)))
        return r

    # ---- expressions
    def effects(self, e, env):
        """effects of evaluating expression e, in evaluation order"""
        out = []
        self._expr(e, env, out)
        return out

    def _expr(self, e, env, out):
        if e is None:
            return
        if isinstance(e, ast.Call):
            self._call(e, env, out)
            return
        if isinstance(e, ast.Attribute):
            self._expr(e.value, env, out)
            if e.attr in RAISING_ATTRS:
                out.append(("MayRaise",))
            return
        if isinstance(e, ast.Lambda):
            self._expr(e.body, env, out)
            return
        if isinstance(e, (ast.ListComp, ast.SetComp, ast.GeneratorExp, ast.DictComp)):
            env2 = env.child()
            inner = []
            for g in e.generators:
                self._expr(g.iter, env2, out)
                self.bind_target(g.target, tainted(self.origin(g.iter, env2)), env2)
                for c in g.ifs:
                    self._expr(c, env2, inner)
            if isinstance(e, ast.DictComp):
                self._expr(e.key, env2, inner)
                self._expr(e.value, env2, inner)
            else:
                self._expr(e.elt, env2, inner)
            body = seq(inner)
            if has_effect(body):
                out.append(("Loop", body))
            return
        for c in ast.iter_child_nodes(e):
            if isinstance(c, ast.expr):
                self._expr(c, env, out)
            elif isinstance(c, ast.keyword):
                self._expr(c.value, env, out)

    def _funcref(self, e, env):
        """candidate functions an expression used as a callable denotes"""
        if isinstance(e, ast.Call) and isinstance(e.func, ast.Name) and e.func.id == "partial" and e.args:
            c, _ = self._funcref(e.args[0], env)
            return c, list(e.args[1:])
        if isinstance(e, ast.Name):
            if e.id in env.funcrefs:
                return env.funcrefs[e.id], []
            if e.id in env.localdefs:
                return [("local", env.localdefs[e.id], env)], []
            r = self.src.resolve_func(env.modkey, e.id)
            if r and r[0] not in PRIMITIVE_MODULES:
                return [("func", r[0], r[1])], []
        if isinstance(e, ast.Subscript) and isinstance(e.value, ast.Dict):
            c = []
            for v in e.value.values:
                r, _ = self._funcref(v, env)
                if not r:
                    return None, []
                c.extend(r)
            return c, []
        return None, []

    def _call(self, e, env, out):
        f = e.func
        args = list(e.args) + [k.value for k in e.keywords]
        # map(f, xs) / pool.imap(f, xs): f is applied to every element
        if isinstance(f, ast.Name) and f.id == "map" and e.args:
            cands, pre = self._funcref(e.args[0], env)
            for a in e.args[1:]:
                self._expr(a, env, out)
            if cands is None:
                raise Abort("map() over an unresolvable function: %s" % ast.unparse(e))
            bodies = [self.inline_ref(c, list(pre) + [None], [], env) for c in cands]
            b = bodies[0]
            for x in bodies[1:]:
                b = ("Choice", b, x)
            out.append(("Loop", b))
            return
        if isinstance(f, ast.Name) and f.id == "partial":
            for a in e.args[1:]:
                self._expr(a, env, out)
            return
        # evaluate receiver and arguments first
        if isinstance(f, ast.Attribute):
            self._expr(f.value, env, out)
        for a in args:
            cands, _ = self._funcref(a, env) if isinstance(a, (ast.Name,)) else (None, [])
            if not cands:
                self._expr(a, env, out)
        arg_origins = [self.origin(a, env) for a in args]
        model_passed = any(o in ("M",) for o in arg_origins)
        copy_passed = any(o in ("C",) for o in arg_origins)

        if isinstance(f, ast.Name):
            name = f.id
            # nested function
            if name in env.localdefs:
                out.append(self.inline_def(env.localdefs[name], env.modkey, env.cls, e, env, closure=env))
                return
            if name in env.funcrefs:
                bodies = [self.inline_ref(c, e.args, e.keywords, env) for c in env.funcrefs[name]]
                b = bodies[0]
                for x in bodies[1:]:
                    b = ("Choice", b, x)
                out.append(b)
                return
            real = self.src.imports[env.modkey].get(name, name)
            if real in ("add_cons_vars_to_problem", "remove_cons_vars_from_problem"):
                o = arg_origins[0] if arg_origins else None
                out.append(("MayRaise",))
                out.append(self.on(o, self.flavoured(real, "KConsVars")))
                self.note("%s(model, ...)  (%s)" % (real, self.T[real]), coq(self.flavoured(real, "KConsVars")))
                return
            if real == "set_objective":
                o = arg_origins[0] if arg_origins else None
                out.append(("MayRaise",))
                out.append(self.on(o, self.objective_set(e.args[1] if len(e.args) > 1 else None, env)))
                return
            if real in self.src.classes and self.src.classes[real][0] not in PRIMITIVE_MODULES and real != "Model":
                out.append(self.construct(real, e, env))
                return
            if real in PURE_FUNCS:
                out.append(("MayRaise",))
                return
            r = self.src.resolve_func(env.modkey, name)
            if r and r[0] not in PRIMITIVE_MODULES:
                out.append(self.inline_def(r[1], r[0], None, e, env))
                return
            if name == "super":
                return
            if name in ("setattr", "delattr") and any(o is not None for o in arg_origins):
                raise Abort("setattr/delattr on a model object: %s" % ast.unparse(e))
            if (model_passed or copy_passed) and name not in BUILTIN_PURE:
                raise Abort("the model is passed to an unknown function: %s" % ast.unparse(e))
            if name not in NORAISE_FUNCS:
                out.append(("MayRaise",))
            return

        if not isinstance(f, ast.Attribute):
            out.append(("MayRaise",))
            return
        meth, recv = f.attr, f.value
        ro = self.origin(recv, env)
        rtxt = ast.unparse(recv)
        # super().method(...)
        if isinstance(recv, ast.Call) and isinstance(recv.func, ast.Name) and recv.func.id == "super":
            base = self.src.base_of(env.cls) if env.cls in self.src.classes else None
            m = self.src.method(base, meth) if base else None
            if m is None:
                out.append(("MayRaise",))      # object.__init__ and the like
                return
            out.append(self.inline_def(m[2], m[1], m[0], e, env, self_inst=env.self_inst))
            return
        # self.method(...) on an instance of an analysed class
        if isinstance(recv, ast.Name) and recv.id == "self" and env.self_inst is not None:
            m = self.src.method(env.self_inst.cls, meth)
            if m is None:
                raise Abort("method %s.%s not found" % (env.self_inst.cls, meth))
            out.append(self.inline_def(m[2], m[1], m[0], e, env, self_inst=env.self_inst))
            return
        if isinstance(recv, ast.Name) and recv.id in env.instances:
            bodies = []
            for inst in env.instances[recv.id]:
                m = self.src.method(inst.cls, meth)
                if m is None:
                    raise Abort("method %s.%s not found" % (inst.cls, meth))
                bodies.append(self.inline_def(m[2], m[1], m[0], e, env, self_inst=inst))
            b = bodies[0]
            for x in bodies[1:]:
                b = ("Choice", b, x)
            out.append(b)
            return
        # module alias: sutil.f(...)
        if isinstance(recv, ast.Name) and self.src.imports[env.modkey].get(recv.id) == "solver" and ro is None:
            fake = ast.Call(func=ast.Name(id=meth, ctx=ast.Load()), args=e.args, keywords=e.keywords)
            env2 = env.child()
            env2.modkey = "solver"
            sub = []
            # resolve the name in util/solver.py but bind arguments in the caller's environment
            if meth in ("add_cons_vars_to_problem", "remove_cons_vars_from_problem", "set_objective") or \
                    meth in PURE_FUNCS:
                save = env.modkey
                env.modkey = "solver"
                try:
                    self._call(fake, env, sub)
                finally:
                    env.modkey = save
                # arguments were already evaluated above: keep only the call's own effect
                out.append(sub[-1] if sub else ("MayRaise",))
                if len(sub) > 1 and sub[-2] == ("MayRaise",):
                    out.insert(len(out) - 1, ("MayRaise",))
                return
            fd = self.src.funcs.get(("solver", None, meth))
            if fd is None:
                raise Abort("unknown function sutil.%s" % meth)
            out.append(self.inline_def(fd, "solver", None, e, env))
            return
        # the model (or a copy) itself
        if ro in ("M", "C"):
            if meth in ("slim_optimize", "optimize", "summary"):
                fd = self.src.funcs[("model", "Model", meth)]
                out.append(self.inline_def(fd, "model", "Model", e, env, self_origin=ro))
                return
            if meth in ("add_cons_vars", "remove_cons_vars"):
                out.append(("MayRaise",))
                out.append(self.on(ro, self.flavoured("Model." + meth, "KConsVars")))
                self.note("<model>.%s(...)  (%s)" % (meth, self.T["Model." + meth]),
                          coq(self.flavoured("Model." + meth, "KConsVars")))
                return
            if meth in MODEL_CONTENT_METHODS:
                out.append(("MayRaise",))
                out.append(self.on(ro, self.flavoured("Model." + meth, "KContent")))
                self.note("<model>.%s(...)  (%s)" % (meth, self.T["Model." + meth]),
                          coq(self.flavoured("Model." + meth, "KContent")))
                return
            if meth == "copy":
                out.append(("MayRaise",))
                return
            raise Abort("unknown method called on the model: %s" % ast.unparse(e))
        # attribute chains of the model / objects reached from it
        if meth == "optimize" and rtxt.endswith("solver") and ro in ("MA", "CA"):
            out.append(self.on(ro, ("Solve",)))
            return
        if meth in ("add", "remove") and rtxt.endswith("solver") and ro in ("MA", "CA"):
            out.append(("MayRaise",))
            out.append(self.on(ro, ("Raw", "KConsVars")))
            self.note("<model>.solver.%s(...)" % meth, "Raw KConsVars")
            return
        if meth == "update" and rtxt.endswith("solver") and ro in ("MA", "CA"):
            out.append(("MayRaise",))
            return
        if meth == "set_linear_coefficients":
            isobj = rtxt.endswith("objective") or (isinstance(recv, ast.Name) and recv.id in env.objalias)
            k = "KObjective" if isobj else "KConsAttr"
            out.append(("MayRaise",))
            out.append(self.on(ro, ("Raw", k)))
            self.note("<%s>.set_linear_coefficients(...)" % ("objective" if isobj else "constraint"), "Raw " + k)
            return
        if meth == "set_bounds":
            out.append(self.on(ro, ("Raw", "KConsAttr")))
            self.note("<variable>.set_bounds(...)", "Raw KConsAttr")
            return
        if meth == "knock_out":
            out.append(("MayRaise",))
            out.append(self.on(ro, self.knock_out(rtxt)))
            return
        if meth in OBJECT_MUTATORS_UNMODELLED and ro in ("MA", "T", "M"):
            raise Abort("unmodelled mutator on a model object: %s" % ast.unparse(e))
        if meth in MODEL_CONTENT_METHODS | {"add_cons_vars", "remove_cons_vars"} and ro in ("MA", "T"):
            raise Abort("model-level mutator on an object that is not known to be the model: %s" % ast.unparse(e))
        if meth in CONTAINER_MUTATORS and ro == "MA":
            raise Abort("container mutation on an attribute of the model: %s" % ast.unparse(e))
        if (model_passed or copy_passed) and meth not in ("format", "get_by_any"):
            raise Abort("the model is passed to an unknown method: %s" % ast.unparse(e))
        root = recv
        while isinstance(root, (ast.Attribute, ast.Call, ast.Subscript)):
            root = root.func if isinstance(root, ast.Call) else root.value
        if isinstance(root, ast.Name) and root.id in NORAISE_RECV:
            return
        if meth in NORAISE_METHODS and ro is None:
            return
        out.append(("MayRaise",))

    # ---- classes
    def construct(self, cls, call, env):
        inst = Inst(cls)
        m = self.src.method(cls, "__init__")
        call._inst = inst
        if m is None:
            return ("MayRaise",)
        return self.inline_def(m[2], m[1], m[0], call, env, self_inst=inst)

    # ---- inlining
    def inline_ref(self, ref, args, keywords, env):
        fake = ast.Call(func=ast.Name(id="_", ctx=ast.Load()), args=[a for a in args if a is not None],
                        keywords=keywords)
        fake._placeholders = [a is None for a in args]
        if ref[0] == "local":
            return self.inline_def(ref[1], env.modkey, env.cls, fake, env, closure=ref[2], positional=args)
        return self.inline_def(ref[2], ref[1], None, fake, env, positional=args)

    def inline_def(self, fd, modkey, cls, call, env, self_inst=None, self_origin=None, closure=None, positional=None):
        key = (modkey, cls, fd.name, fd.lineno)
        if key in self.stack:
            raise Abort("recursive call of %s" % fd.name)
        if len(self.stack) > 14:
            raise Abort("inlining too deep at %s" % fd.name)
        new = closure.child() if closure is not None else Env(modkey, cls)
        new.modkey, new.cls = modkey, cls
        new.params, new.assigned, new.saves, new.globals = set(), {}, {}, set()
        new.self_inst = self_inst if self_inst is not None else (closure.self_inst if closure else None)
        params = [a.arg for a in fd.args.posonlyargs + fd.args.args]
        kwonly = [a.arg for a in fd.args.kwonlyargs]
        defaults = dict(zip(params[len(params) - len(fd.args.defaults):], fd.args.defaults))
        defaults.update({a: d for a, d in zip(kwonly, fd.args.kw_defaults) if d is not None})
        is_method = cls is not None and params and params[0] == "self"
        bound = {}
        pos = list(positional) if positional is not None else list(call.args)
        names = params[1:] if is_method else params
        if is_method:
            if self_origin is not None:
                new.origin["self"] = self_origin
        for p, a in zip(names, pos):
            bound[p] = a
        for k in call.keywords:
            if k.arg is not None:
                bound[k.arg] = k.value
        for p in names + kwonly:
            new.params.add(p)
            if p in bound:
                a = bound[p]
                if a is None:          # element of the iterable in map(f, xs)
                    new.origin[p] = None
                    continue
                o = self.origin(a, env)
                if o is not None:
                    new.origin[p] = o
                else:
                    new.origin.pop(p, None)
                if isinstance(a, ast.Constant) and a.value is None:
                    new.none.add(p)
                if isinstance(a, ast.Name) and a.id in env.none:
                    new.none.add(p)
                if isinstance(a, ast.Name) and a.id in env.truthy:
                    new.truthy.add(p)
                if isinstance(a, ast.Name) and a.id in env.instances:
                    new.instances[p] = env.instances[a.id]
                cands, _ = self._funcref(a, env) if isinstance(a, ast.Name) else (None, [])
                if cands:
                    new.funcrefs[p] = cands
            else:
                new.origin.pop(p, None)
                d = defaults.get(p)
                if isinstance(d, ast.Constant) and d.value is None:
                    new.none.add(p)
        self.prescan(fd, new)
        self.stack.append(key)
        try:
            body = self.block(fd.body, new)
        finally:
            self.stack.pop()
        inst = getattr(call, "_inst", None)
        return ("Scope", body) if has_effect(body) else ("Skip",)

    def prescan(self, fd, env):
        for n in ast.walk(fd):
            if isinstance(n, ast.Assign):
                for t in n.targets:
                    for nm in ast.walk(t):
                        if isinstance(nm, ast.Name) and isinstance(nm.ctx, ast.Store):
                            # `x = a if x is None else x` keeps a passed-through parameter
                            if isinstance(n.value, ast.IfExp) and any(
                                    isinstance(b, ast.Name) and b.id == nm.id for b in (n.value.body, n.value.orelse)):
                                continue
                            env.assigned[nm.id] = env.assigned.get(nm.id, 0) + 1
            elif isinstance(n, (ast.AugAssign, ast.AnnAssign)) and isinstance(n.target, ast.Name):
                env.assigned[n.target.id] = env.assigned.get(n.target.id, 0) + 1
            elif isinstance(n, (ast.For, ast.comprehension)):
                for nm in ast.walk(n.target):
                    if isinstance(nm, ast.Name):
                        env.assigned[nm.id] = env.assigned.get(nm.id, 0) + 2
            elif isinstance(n, ast.Global):
                env.globals.update(n.names)

    # ---- statements
    def block(self, stmts, env):
        out = []
        for st in stmts:
            out.append(self.stmt(st, env))
            if always_leaves(seq(out)):
                break
        return seq(out)

    def bind_target(self, t, o, env, value=None):
        if isinstance(t, ast.Name):
            if t.id in env.globals:
                self.module_globals[(env.modkey, t.id)] = o
            if o is None:
                env.origin.pop(t.id, None)
            else:
                env.origin[t.id] = o
            env.none.discard(t.id)
            env.truthy.discard(t.id)
            env.objalias.discard(t.id)
            env.instances.pop(t.id, None)
            env.funcrefs.pop(t.id, None)
        elif isinstance(t, (ast.Tuple, ast.List)):
            for x in t.elts:
                self.bind_target(x, tainted(o), env)
        elif isinstance(t, ast.Starred):
            self.bind_target(t.value, tainted(o), env)

    def is_direction_read(self, v, env):
        if isinstance(v, ast.Attribute):
            o = self.origin(v.value, env)
            if v.attr == "direction" and ast.unparse(v.value).endswith("objective") and o in ("MA", "CA"):
                return o
            if v.attr == "objective_direction" and o in ("M", "C"):
                return "MA" if o == "M" else "CA"
        return None

    def assign(self, targets, value, env, st):
        out = []
        # evaluation of the right-hand side
        out.extend(self.effects(value, env))
        vo = self.origin(value, env)
        for t in targets:
            if isinstance(t, ast.Name):
                self.bind_target(t, vo, env)
                if isinstance(value, ast.Constant) and value.value is None:
                    env.none.add(t.id)
                inst = getattr(value, "_inst", None)
                if inst is not None:
                    env.instances[t.id] = env.instances.get(t.id, []) + [inst] if False else [inst]
                if isinstance(value, ast.Attribute) and value.attr == "objective" and \
                        self.origin(value.value, env) in ("M", "C", "MA", "CA"):
                    env.objalias.add(t.id)
                cands, _ = self._funcref(value, env) if isinstance(value, (ast.Name, ast.Subscript)) else (None, [])
                if cands:
                    env.funcrefs[t.id] = cands
                d = self.is_direction_read(value, env)
                if d is not None and env.assigned.get(t.id, 0) == 1:
                    self.slot += 1
                    env.saves[t.id] = (self.slot, "KDirection")
                    out.append(self.on(d, ("Save", self.slot, "KDirection")))
                    self.note("x = <model>.objective.direction  (x assigned once)", "Save slot KDirection")
                continue
            if isinstance(t, (ast.Tuple, ast.List)):
                self.bind_target(t, vo, env)
                continue
            if isinstance(t, ast.Subscript):
                out.extend(self.effects(t.value, env))
                out.extend(self.effects(t.slice, env))
                to = self.origin(t.value, env)
                if to in ("M", "MA"):
                    raise Abort("item assignment on an attribute of the model: %s" % ast.unparse(st))
                continue
            if not isinstance(t, ast.Attribute):
                raise Abort("unrecognised assignment target: %s" % ast.unparse(st))
            out.extend(self.effects(t.value, env))
            ro, attr, rtxt = self.origin(t.value, env), t.attr, ast.unparse(t.value)
            if isinstance(t.value, ast.Name) and t.value.id == "self" and env.self_inst is not None \
                    and env.origin.get("self") is None:
                if vo is not None:
                    env.self_inst.attrs[attr] = vo
                else:
                    env.self_inst.attrs.pop(attr, None)
                continue
            if ro in ("M", "C"):
                if attr == "objective":
                    out.append(self.on(ro, self.objective_set(value, env)))
                elif attr == "objective_direction":
                    k = self.flavoured("Model.objective_direction", "KDirection")
                    self.note("<model>.objective_direction = v  (%s)" % self.T["Model.objective_direction"], coq(k))
                    out.append(self.on(ro, k))
                elif attr == "solver":
                    k = self.flavoured("Model.solver", "KSolver")
                    self.note("<model>.solver = v  (%s)" % self.T["Model.solver"], coq(k))
                    out.append(self.on(ro, k))
                elif attr == "medium":
                    fd = self.src.funcs[("model", "Model", "medium.setter")]
                    fake = ast.Call(func=ast.Name(id="_", ctx=ast.Load()), args=[value], keywords=[])
                    out.append(self.on(ro, self.inline_def(fd, "model", "Model", fake, env, self_origin=ro)))
                elif attr == "tolerance":
                    out.append(self.on(ro, ("Raw", "KSolver")))
                    self.note("<model>.tolerance = v", "Raw KSolver")
                elif ro == "M":
                    raise Abort("unknown attribute of the model assigned: %s" % ast.unparse(st))
                continue
            if attr == "direction" and (rtxt.endswith("objective") or
                                        (isinstance(t.value, ast.Name) and t.value.id in env.objalias)):
                if isinstance(value, ast.Name) and value.id in env.saves:
                    slot, k = env.saves[value.id]
                    out.append(self.on(ro, ("Restore", slot, k)))
                    self.note("<model>.objective.direction = x  (x saved before)", "Restore slot KDirection")
                else:
                    out.append(self.on(ro, ("Raw", "KDirection")))
                    self.note("<model>.objective.direction = v", "Raw KDirection")
                continue
            if attr in ("bounds", "lower_bound", "upper_bound"):
                k = self.flavoured("Reaction." + attr, "KBounds")
                self.note("<reaction>.%s = v  (%s)" % (attr, self.T["Reaction." + attr]), coq(k))
                out.append(("MayRaise",))
                out.append(self.on(ro, k))
                continue
            if attr in ("_lower_bound", "_upper_bound"):
                out.append(self.on(ro, ("Raw", "KBounds")))
                self.note("<reaction>.%s = v" % attr, "Raw KBounds")
                continue
            if attr == "functional":
                k = self.flavoured("Gene.functional", "KGenes")
                out.append(self.on(ro, k))
                self.note("<gene>.functional = v  (%s)" % self.T["Gene.functional"], coq(k))
                continue
            if attr == "_functional":
                out.append(self.on(ro, ("Raw", "KGenes")))
                self.note("<gene>._functional = v", "Raw KGenes")
                continue
            if attr in ("ub", "lb"):
                out.append(self.on(ro, ("Raw", "KConsAttr")))
                self.note("<variable or constraint>.%s = v" % attr, "Raw KConsAttr")
                continue
            if ro == "MA" or (ro == "T" and attr not in SAFE_T_ATTRS):
                raise Abort("unknown attribute assignment on a model object: %s" % ast.unparse(st))
        return seq(out)

    def known_test(self, test, env):
        """True/False when the test is decided by a parameter known to be None, else None"""
        if isinstance(test, ast.Compare) and len(test.ops) == 1 and isinstance(test.left, ast.Name) \
                and isinstance(test.comparators[0], ast.Constant) and test.comparators[0].value is None \
                and test.left.id in env.none:
            if isinstance(test.ops[0], ast.Is):
                return True
            if isinstance(test.ops[0], ast.IsNot):
                return False
        if isinstance(test, ast.Name) and test.id in env.none:
            return False
        if isinstance(test, ast.Name) and test.id in env.truthy:
            return True
        return None

    def stmt(self, st, env):
        if isinstance(st, (ast.Pass, ast.Import, ast.ImportFrom, ast.Nonlocal)):
            return ("Skip",)
        if isinstance(st, ast.Global):
            env.globals.update(st.names)
            return ("Skip",)
        if isinstance(st, ast.FunctionDef):
            env.localdefs[st.name] = st
            return ("Skip",)
        if isinstance(st, ast.Expr):
            if isinstance(st.value, ast.Constant):
                return ("Skip",)
            return seq(self.effects(st.value, env))
        if isinstance(st, ast.Assign):
            return self.assign(st.targets, st.value, env, st)
        if isinstance(st, ast.AnnAssign):
            if st.value is None:
                return ("Skip",)
            return self.assign([st.target], st.value, env, st)
        if isinstance(st, ast.AugAssign):
            out = self.effects(st.value, env)
            t = st.target
            to = self.origin(t if isinstance(t, ast.Name) else t.value, env)
            if isinstance(t, ast.Name):
                if to in ("M", "MA", "T") and not isinstance(st.op, (ast.Add, ast.Sub, ast.Mult)) :
                    raise Abort("in-place operator on a model object: %s" % ast.unparse(st))
                if to in ("M", "MA"):
                    raise Abort("in-place operator on a model object: %s" % ast.unparse(st))
                out.append(("MayRaise",))
                return seq(out)
            if to in ("M", "MA"):
                raise Abort("in-place operator on an attribute of the model: %s" % ast.unparse(st))
            out.append(("MayRaise",))
            return seq(out)
        if isinstance(st, ast.Return):
            return seq(self.effects(st.value, env) + [("Return",)])
        if isinstance(st, ast.Raise):
            return seq(self.effects(st.exc, env) + [("Raise",)])
        if isinstance(st, ast.Break):
            return ("Break",)
        if isinstance(st, ast.Continue):
            return ("Continue",)
        if isinstance(st, ast.Assert):
            return seq(self.effects(st.test, env) + [("MayRaise",)])
        if isinstance(st, ast.Delete):
            for t in st.targets:
                root = t.value if isinstance(t, (ast.Subscript, ast.Attribute)) else t
                if self.origin(root, env) in ("M", "MA"):
                    raise Abort("del on a model object: %s" % ast.unparse(st))
            return ("MayRaise",)
        if isinstance(st, ast.If):
            pre = self.effects(st.test, env)
            kt = self.known_test(st.test, env)
            if kt is True:
                return seq(pre + [self.block(st.body, env)])
            if kt is False:
                return seq(pre + [self.block(st.orelse, env)])
            e1, e2 = env.child(), env.child()
            e1.params, e1.assigned, e1.saves, e1.globals = env.params, env.assigned, dict(env.saves), env.globals
            e2.params, e2.assigned, e2.saves, e2.globals = env.params, env.assigned, dict(env.saves), env.globals
            a, b = self.block(st.body, e1), self.block(st.orelse, e2)
            self.merge(env, e1, e2)
            if not has_effect(a) and not has_effect(b):
                return seq(pre)
            return seq(pre + [("Choice", a, b)])
        if isinstance(st, (ast.For, ast.While)):
            if st.orelse:
                raise Abort("loop with else clause: line %d" % st.lineno)
            if isinstance(st, ast.For):
                pre = self.effects(st.iter, env)
                self.bind_target(st.target, tainted(self.origin(st.iter, env)), env)
                body = self.block(st.body, env)
                # second pass so that names bound late in the body are seen at its start
                body = self.block(st.body, env)
            else:
                pre = []
                names = [st.test.id] if isinstance(st.test, ast.Name) else []
                for _pass in (0, 1):
                    env.truthy.update(names)
                    body = seq(self.effects(st.test, env) + [self.block(st.body, env)])
                for nm in names:
                    env.truthy.discard(nm)
            if not has_effect(body):
                return seq(pre)
            return seq(pre + [("Loop", body)])
        if isinstance(st, ast.With):
            pre, wrap = [], 0
            for item in st.items:
                o = self.origin(item.context_expr, env)
                if o == "M":
                    wrap += 1
                    if item.optional_vars is not None:
                        self.bind_target(item.optional_vars, "M", env)
                elif o == "C":
                    if item.optional_vars is not None:
                        self.bind_target(item.optional_vars, "C", env)
                elif o == "MA":
                    raise Abort("unknown context manager derived from the model: %s" % ast.unparse(item.context_expr))
                else:
                    pre.extend(self.effects(item.context_expr, env))
                    if item.optional_vars is not None:
                        self.bind_target(item.optional_vars, None, env)
            body = self.block(st.body, env)
            for _ in range(wrap):
                body = ("With", body)
            return seq(pre + [body])
        if isinstance(st, ast.Try):
            if st.orelse:
                raise Abort("try with else clause: line %d" % st.lineno)
            body = self.block(st.body, env)
            if st.handlers:
                hs = [self.block(h.body, env) for h in st.handlers]
                h = hs[0]
                for x in hs[1:]:
                    h = ("Choice", h, x)
                body = ("TryCatch", body, h)
            if st.finalbody:
                body = ("TryFinally", body, self.block(st.finalbody, env))
            return body
        raise Abort("unrecognised statement %s at line %d" % (type(st).__name__, getattr(st, "lineno", 0)))

    def merge(self, env, e1, e2):
        for nm in set(e1.origin) | set(e2.origin):
            a, b = e1.origin.get(nm), e2.origin.get(nm)
            if a == b:
                env.origin[nm] = a
            else:
                j = join_origin(tainted(a) if a not in ("M", "C") else a, tainted(b) if b not in ("M", "C") else b)
                if (a in ("M", "C") or b in ("M", "C")) and a != b and a is not None and b is not None:
                    raise Abort("name %s is the model on one branch and something else on the other" % nm)
                env.origin[nm] = a if b is None and a in ("M", "C") else (b if a is None and b in ("M", "C") else j)
        env.none = e1.none & e2.none
        env.truthy = e1.truthy & e2.truthy
        for nm in set(e1.instances) | set(e2.instances):
            env.instances[nm] = e1.instances.get(nm, []) + [i for i in e2.instances.get(nm, [])
                                                             if i not in e1.instances.get(nm, [])]
        for nm in set(e1.funcrefs) | set(e2.funcrefs):
            env.funcrefs[nm] = e1.funcrefs.get(nm, []) + [c for c in e2.funcrefs.get(nm, [])
                                                           if c not in e1.funcrefs.get(nm, [])]
        env.objalias = e1.objalias | e2.objalias
        env.localdefs.update(e1.localdefs)
        env.localdefs.update(e2.localdefs)
        env.saves = {k: v for k, v in e1.saves.items() if e2.saves.get(k) == v}


def translate_all(repo):
    src = Source(repo)
    tables = derive_tables(src)
    results, used = [], {}
    for name, mod, cls, fn, mparam in ENTRIES:
        tr = Translator(src, tables)
        key = (mod, cls, fn + ".setter") if name == "medium_setter" else (mod, cls, fn)
        fd = src.funcs.get(key)
        if fd is None:
            raise Abort("entry point %s not found" % name)
        env = Env(mod, cls)
        params = [a.arg for a in fd.args.args + fd.args.kwonlyargs]
        if mparam not in params:
            raise Abort("entry point %s has no parameter %s" % (name, mparam))
        # call the entry with the model bound to its model parameter, everything else unknown
        call = ast.Call(func=ast.Name(id="_", ctx=ast.Load()), args=[],
                        keywords=[ast.keyword(arg=p, value=ast.Name(id="__arg_" + p, ctx=ast.Load()))
                                  for p in params if p not in ("self",)])
        env.origin["__arg_" + mparam] = "M"
        inst = None
        if cls is not None and cls != "Model":
            inst = Inst(cls)
        sk = tr.inline_def(fd, mod, cls, call, env, self_inst=inst, self_origin="M" if mparam == "self" else None)
        if sk[0] == "Scope":
            pass
        results.append((name, sk))
        used.update(tr.used)
    return tables, results, used


def render(repo):
    import json
    tables, results, used = translate_all(repo)
    exc = {}
    if os.path.exists(KNOWN_EXCEPTIONS_FILE):
        exc = json.load(open(KNOWN_EXCEPTIONS_FILE)).get("entries", {})
    lines = ["From Cobra.Frame Require Import Model.", "Open Scope string_scope.", "Open Scope nat_scope.", "",
             "(* classification tables derived from the source of the mutators:"]
    for k in sorted(tables):
        lines.append("     %-40s %s" % (k, tables[k]))
    lines.append("   classification of the shapes met while walking the entry points:")
    for k in sorted(used):
        lines.append("     %-75s -> %s" % (k, used[k]))
    lines.append("*)")
    for name, sk in results:
        lines.append("Definition sk_%s : sk :=\n  %s." % (name, coq(sk)))
    lines.append("")
    lines.append("Definition current_skeletons : list (string * sk) :=\n  [" + ";\n   ".join(
        '("%s", sk_%s)' % (n, n) for n, _ in results) + "].")
    def rep_term(r):
        return "[" + "; ".join("(%d, [%s])" % (x, "; ".join(ks)) for x, ks in r) + "]"
    lines.append("(* entry points the unchanged tree is known not to pass (genuine defects, fixes/*.md), with the exact\n"
                 "   rejection report recorded for them: any other report is a new defect *)")
    lines.append("Definition known_exceptions : list (string * list (nat * list kind)) :=\n  [" + ";\n   ".join(
        '("%s", %s)' % (e, rep_term(exc[e])) for e in sorted(exc)) + "].")
    return "\n".join(lines), tables, results, used, exc


@section("Skeletons")
def skeletons(repo):
    return render(repo)[0]


if __name__ == "__main__":
    import sys
    text, tables, results, used, exc = render(sys.argv[1] if len(sys.argv) > 1 else "/repo")
    print(text)
    for n, sk in results:
        print("(* %s: %d nodes *)" % (n, size(sk)))
