"""C06 — deletion analyses report the optimum of each knocked-out model.

Implementation side: single/double gene/reaction deletion (methods "fba" and "linear moma", processes 1 and 2, lists
given as objects or ids, full / partial / overlapping), the `knockout` accessor, find_essential_genes/reactions.
Model side (coq/theories/Deletion): the set of rows (`{frozenset(comb)}`), the knocked-out model of every row
(reactions directly; genes through the Gallina rule evaluator and the sequential Gene.knock_out model), the exact
verdict of that model certified by the proved checkers (LP/Cert.v), the essential-set rule with the threshold factor
regenerated from variability.py."""
import math
import os
import re
import sys
import warnings
from fractions import Fraction as F

sys.path.insert(0, os.path.dirname(os.path.abspath(__file__)))
import common as K  # noqa: E402
import gennet  # noqa: E402
import lpexact  # noqa: E402
import lpcheck  # noqa: E402
import c09  # noqa: E402  (exact replicas of the MOMA LP, helpers)

sys.path.insert(0, os.path.join(K.REPO, "src"))

PROP = "C06"
EXTRA_TARGETS = ["theories/Deletion/Check.vo"]
HEADER = """From Coq Require Import QArith List Bool ZArith.
From Cobra.LP Require Import Defs Fba.
From Cobra.Optimize Require Import Model.
From Cobra.Deletion Require Import Model Check.
Import ListNotations.
Open Scope Q_scope."""
CASE_TYPE = "c06case"
CODES = {1: "the rows of the result frame are not the modelled set {frozenset(comb) for comb in product(lists)}",
         2: "status of a row contradicts the exact verdict for the knocked-out model",
         3: "growth of a row is not the certified optimum of the knocked-out model (or NaN-ness is wrong)",
         4: "duplicated row, or a row that is not a requested unordered combination, or a combination without row",
         12: "a reference solution passed as solution= was ignored (the implementation computed its own pFBA reference)",
         5: "linear MOMA: the reported growth is not the old objective's value at any minimal-adjustment solution",
         6: "find_essential_* returned an entity that is not essential, or missed one that is",
         7: "the `knockout` accessor did not return exactly the row of a combination",
         9: "exact oracle certificate rejected (harness fault)"}
THEOREMS = ("C06_deletion_rows, C06_reaction_deletion_spec, C06_gene_deletion_spec, C06_ko_feasible_iff, "
            "C06_deletion_growth, C06_essential_spec, C06_moma_growth_char_partial "
            "(coq/theories/Properties/C06.v)")
RULE = ("random stoichiometric networks with gene rules (harness/gennet.py) x {single, double} x {gene, reaction} x "
        "lists (default / partial / overlapping / with repeats, objects or ids) x method {fba, linear moma} x processes "
        "{1, 2}; find_essential_* with default and explicit thresholds; non-trivial = the call returned a frame / set "
        "and was evaluated on both sides; distinct = distinct JSON case")
TRUSTED = ["GLPK / optlang are validated per instance against the certificate-checked exact optimum, not proved",
           "harness/lpexact.py only searches for certificates; coq/theories/LP/Cert.v decides them",
           "the harness parses gennet's fully parenthesised rule text into the Gallina rule type",
           "floating point: values compared within 1e-6*max(1,|x|) (DESIGN 2.3)"]
ASSUMPTIONS = ["GLPK's simplex is not verified: its answer is validated on every explored instance",
               "quadratic MOMA and ROOM inside deletions are out of scope (C09 covers ROOM; no QP solver)",
               "real multiprocessing is exercised with processes in {1, 2}, not modelled"]
SHARD = 30

STATUS = c09.STATUS
vec, qs, qf, opt, oracle_term = c09.vec, c09.qs, c09.qf, c09.opt, c09.oracle_term


# ------------------------------------------------------------------ gene rules
TOKEN = re.compile(r"\s*(\(|\)|and\b|or\b|[A-Za-z_][A-Za-z_0-9]*)")


def parse_rule(text):
    """fully parenthesised and/or text -> nested tuples ('g', id) | ('and', a, b) | ('or', a, b) | ('true',)"""
    toks = TOKEN.findall(text)
    if not toks:
        return ("true",)
    pos = [0]

    def atom():
        t = toks[pos[0]]
        pos[0] += 1
        if t == "(":
            e = expr()
            assert toks[pos[0]] == ")"
            pos[0] += 1
            return e
        return ("g", t)

    def expr():
        e = atom()
        while pos[0] < len(toks) and toks[pos[0]] in ("and", "or"):
            op = toks[pos[0]]
            pos[0] += 1
            e = (op, e, atom())
        return e
    e = expr()
    assert pos[0] == len(toks), "trailing tokens in rule %r" % text
    return e


def rule_term(e, gpos):
    if e[0] == "true":
        return "RTrue"
    if e[0] == "g":
        return "(RGene %d%%nat)" % gpos[e[1]]
    return "(%s %s %s)" % ("RAnd" if e[0] == "and" else "ROr", rule_term(e[1], gpos), rule_term(e[2], gpos))


def rule_eval(e, ko):
    if e[0] == "true":
        return True
    if e[0] == "g":
        return e[1] not in ko
    a, b = rule_eval(e[1], ko), rule_eval(e[2], ko)
    return (a and b) if e[0] == "and" else (a or b)


def ko_net(net, entity, ids):
    """the network with the named reactions - for genes the reactions whose rule is false - forced to zero"""
    if entity == "reaction":
        dead = set(ids)
    else:
        dead = {r["id"] for r in net["rxns"] if not rule_eval(parse_rule(r.get("gpr") or ""), set(ids))}
    return c09.knocked(net, dead)


def nats(xs):
    return "[" + "; ".join("%d%%nat" % x for x in xs) + "]"


def model_terms(net, m):
    genes = [g.id for g in m.genes]
    gpos = {g: i for i, g in enumerate(genes)}
    rules = "[" + "; ".join(rule_term(parse_rule(r.get("gpr") or ""), gpos) for r in net["rxns"]) + "]"
    return genes, gpos, rules


# ------------------------------------------------------------------ deletions
def del_case(case):
    import importlib
    import cobra
    from cobra.flux_analysis import deletion
    moma_mod = importlib.import_module("cobra.flux_analysis.moma")
    net = case["net"]
    entity, method = case["entity"], case["method"]
    rids = [r["id"] for r in net["rxns"]]
    obs = {}
    with warnings.catch_warnings():
        warnings.simplefilter("ignore")
        m = gennet.to_cobra(net, case.get("solver", "glpk"))
        genes, gpos, rules = model_terms(net, m)
        universe = genes if entity == "gene" else rids
        upos = {e: i for i, e in enumerate(universe)}

        def norm(l):
            return None if l is None else [e for e in l if e in upos]
        l1, l2 = norm(case.get("l1")), norm(case.get("l2"))
        dl = m.genes if entity == "gene" else m.reactions

        def arg(l):
            if l is None:
                return None
            return list(l) if case.get("style") == "id" else [dl.get_by_id(e) for e in l]
        ref_sol, used = None, {}
        if method == "linear moma" and case.get("ref") == "given":
            try:
                ref_sol = gennet.to_cobra(net, case.get("solver", "glpk")).optimize()
            except Exception as e:  # noqa  (unbounded wild type: Model.optimize raises, no reference exists)
                return None, {"skipped": True, "stats": {"kind": "del", "skipped": "no reference: " + type(e).__name__}}
            if ref_sol.status != "optimal":
                return None, {"skipped": True, "stats": {"kind": "del", "skipped": "no reference: " + ref_sol.status}}
        orig_pfba = moma_mod.pfba

        def spy_pfba(model, *a, **kw):
            used["sol"] = orig_pfba(model, *a, **kw)
            return used["sol"]
        moma_mod.pfba = spy_pfba
        fn = {("gene", False): deletion.single_gene_deletion, ("gene", True): deletion.double_gene_deletion,
              ("reaction", False): deletion.single_reaction_deletion,
              ("reaction", True): deletion.double_reaction_deletion}[(entity, bool(case.get("double")))]
        try:
            if case.get("double"):
                df = fn(m, arg(l1), arg(l2), method=method, solution=ref_sol, processes=case.get("processes", 1))
            else:
                df = fn(m, arg(l1), method=method, solution=ref_sol, processes=case.get("processes", 1))
            exc = None
        except Exception as e:  # noqa
            df, exc = None, e
        finally:
            moma_mod.pfba = orig_pfba
    if exc is not None:
        wt = lpexact.certified(gennet.net_lp(net))
        if method == "linear moma" and wt[0] != "optimal":
            return None, {"skipped": True, "stats": {"kind": "del", "skipped": "moma without a reference (model %s)" % wt[0]}}
        raise exc
    ref = None
    if method == "linear moma" and ref_sol is not None and "sol" in used:
        # the caller's reference was handed over, yet the implementation computed its own (pfba) reference
        return None, {"py_codes": [12], "obs": {"reference_passed": True, "pfba_called_by_the_implementation": True},
                      "stats": {"kind": "del", "entity": entity, "method": method}}
    if method == "linear moma":
        src = ref_sol if ref_sol is not None else used.get("sol")
        if src is None:
            raise RuntimeError("linear moma ran without a reference solution being observed")
        ref = [qf(src.fluxes[i]) for i in rids]
    rows = []
    obs["rows"] = []
    acc_ok = True
    for _, row in df.iterrows():
        ids = sorted(row["ids"], key=lambda e: upos.get(e, -1))
        if any(e not in upos for e in ids):
            rows.append("(mkObs [999%nat] None OtherSt ONone ONone)")
            continue
        g = row["growth"]
        gq = None if (isinstance(g, float) and math.isnan(g)) else qf(g)
        kn = ko_net(net, entity, ids)
        band = None
        if method == "fba":
            o = lpexact.certified(gennet.net_lp(kn))
        else:
            lp = c09.moma_lp_py(kn, ref)
            o = lpexact.certified(lp)
            if o[0] == "optimal" and gq is not None:
                d = F(1, 10 ** 6) * max(F(1), abs(gq))
                lpb = dict(lp)
                lpb["vb"] = list(lp["vb"])
                lpb["vb"][2 * len(rids)] = (gq - d, gq + d)
                band = lpexact.certified(lpb)
        rows.append("(mkObs %s %s %s %s %s)" % (
            nats(sorted(upos[e] for e in ids)), opt(None if gq is None else gennet.q(gq)),
            STATUS.get(row["status"], "OtherSt"), oracle_term(o), oracle_term(band)))
        obs["rows"].append({"ids": ids, "growth": None if gq is None else float(g), "status": row["status"],
                            "exact": o[0], "exact_growth": None if o[0] != "optimal" or method != "fba" else
                            str(sum((c * x for c, x in zip(c09.raw_obj(kn), o[1])), F(0)))})
        # the accessor: by id / object for single knock-outs, by set for combinations
        try:
            key = ids[0] if len(ids) == 1 else set(ids)
            if case.get("style") == "obj":
                key = dl.get_by_id(ids[0]) if len(ids) == 1 else {dl.get_by_id(e) for e in ids}
            sub = df.knockout[key]
            if len(sub) != 1 or set(sub.iloc[0]["ids"]) != set(ids):
                acc_ok = False
        except Exception:
            acc_ok = False

    def lst(l):
        return "None" if l is None else "(Some %s)" % nats(upos[e] for e in l)
    rest = "[%s]" % lst(l2) if case.get("double") else "[]"
    term = "(CDel (mkDel %s %s %d%%nat %s %s %s %s %s [%s] %s))" % (
        gennet.coq_net(net), rules, len(genes), "EGene" if entity == "gene" else "ERxn",
        "MFba" if method == "fba" else "MMoma", lst(l1), rest, vec(ref or []), "; ".join(rows),
        "true" if acc_ok else "false")
    return term, {"obs": obs, "nontrivial": len(rows) > 0,
                  "stats": {"kind": "del", "entity": entity, "double": bool(case.get("double")), "method": method,
                            "processes": case.get("processes", 1), "style": case.get("style"),
                            "lists": "%s/%s" % ("default" if l1 is None else "given", "default" if l2 is None else "given"),
                            "n_rows": len(rows), "n_genes": len(genes), "n_rxns": len(rids), "dir": net["dir"]}}


# ------------------------------------------------------------------ essential sets
def ess_case(case):
    from cobra.flux_analysis import variability
    net = case["net"]
    entity = case["entity"]
    rids = [r["id"] for r in net["rxns"]]
    with warnings.catch_warnings():
        warnings.simplefilter("ignore")
        m = gennet.to_cobra(net, "glpk")
        genes, gpos, rules = model_terms(net, m)
        universe = genes if entity == "gene" else rids
        wt = lpexact.certified(gennet.net_lp(net))
        if wt[0] != "optimal":
            return None, {"skipped": True, "stats": {"kind": "ess", "skipped": "model " + wt[0]}}
        thr = None if case.get("threshold") is None else float(F(case["threshold"]))
        fn = variability.find_essential_genes if entity == "gene" else variability.find_essential_reactions
        got = fn(m, threshold=thr, processes=case.get("processes", 1))
    got_ids = sorted(universe.index(e.id) for e in got)
    kos = [lpexact.certified(gennet.net_lp(ko_net(net, entity, [e]))) for e in universe]
    term = "(CEss (mkEss %s %s %d%%nat %s %s %s [%s] %s))" % (
        gennet.coq_net(net), rules, len(genes), "EGene" if entity == "gene" else "ERxn",
        opt(None if thr is None else gennet.q(F(thr))), oracle_term(wt), "; ".join(oracle_term(o) for o in kos),
        nats(got_ids))
    return term, {"obs": {"essential": [e.id for e in got], "exact_knockouts": [o[0] for o in kos]},
                  "nontrivial": len(universe) > 0,
                  "stats": {"kind": "ess", "entity": entity, "threshold": "default" if thr is None else "given",
                            "n_essential": len(got_ids), "n_entities": len(universe), "dir": net["dir"]}}


# ------------------------------------------------------------------ generators
def pick_list(rng, universe):
    r = rng.random()
    if r < 0.05:
        return []                        # an empty request: no rows
    if r < 0.3 or not universe:
        return None
    k = rng.randrange(1, len(universe) + 1)
    l = rng.sample(universe, k)
    if rng.random() < 0.25:
        l = l + [rng.choice(l)]          # a repeat inside one list
    return l


def gen_del(rng, n):
    cases = []
    for k in range(n):
        net = gennet.gen_network(rng, finite_only=(k % 5 != 0), genes=True, max_rxns=8,
                                 forced_p=0.2 if k % 6 == 0 else 0.05, inf_p=0.4 if k % 10 == 0 else 0.15)
        entity = "gene" if k % 2 == 0 else "reaction"
        universe = list(net["genes"]) if entity == "gene" else [r["id"] for r in net["rxns"]]
        if entity == "gene":
            universe = [g for g in universe if any(re.search(r"\b%s\b" % g, r.get("gpr") or "") for r in net["rxns"])]
        c = {"kind": "del", "net": net, "entity": entity, "double": k % 3 == 0,
             # (k % 4 == 3 alone is always odd = reaction deletions: k % 8 == 6 brings linear MOMA to gene deletions,
             #  single and double, with and without a caller-supplied reference)
             "method": "linear moma" if (k % 4 == 3 or k % 8 == 6) else "fba", "processes": 2 if k % 5 == 1 else 1,
             "style": "id" if k % 2 == (k // 2) % 2 else "obj",
             "ref": "given" if (k % 8 == 3 or k % 16 == 6) else "default",
             "l1": pick_list(rng, universe), "l2": None}
        if c["double"]:
            c["l2"] = pick_list(rng, universe)
            if c["l1"] and c["l2"] is not None and rng.random() < 0.5:
                c["l2"] = list(dict.fromkeys(c["l2"] + rng.sample(c["l1"], 1)))      # overlap between the two lists
        cases.append(c)
    return cases


def bypass_net(rng):
    """A main route and a low-capacity bypass: knocking the main route out leaves a growth that is positive but
    far below the wild type (between an explicit threshold of 0 and the default 1 % rule)."""
    small = rng.choice(["1/2", "1", "5"])
    big = rng.choice(["1000", "1000", "600"])
    def rx(i, st, lb, ub, obj="0", gpr=""):
        return {"id": i, "st": st, "lb": lb, "ub": ub, "obj": obj, "gpr": gpr}
    rxns = [rx("EX_0", {"M0_e": "-1"}, "-" + big, "0"),
            rx("R1", {"M0_e": "-1", "M1_c": "1"}, "0", big, gpr="g0"),
            rx("R2", {"M0_e": "-1", "M1_c": "1"}, "0", small, gpr="g1"),
            rx("R3", {"M1_c": "-1"}, "0", "1000", obj="1", gpr="g0 or g2")]
    if rng.random() < 0.5:
        rxns.append(rx("R4", {"M1_c": "-1", "M2_c": "1"}, "0", "10"))
        rxns.append(rx("DM_5", {"M2_c": "-1"}, "0", "10"))
    rng.shuffle(rxns)
    return {"mets": ["M0_e", "M1_c", "M2_c"], "rxns": rxns, "dir": "max", "genes": ["g0", "g1", "g2"]}


def gen_ess(rng, n):
    cases = []
    for k in range(n):
        net = gennet.gen_network(rng, finite_only=(k % 4 != 0), genes=True, max_rxns=8)
        net["dir"] = "max" if k % 6 else net["dir"]
        if k % 5 == 3:
            net = bypass_net(rng)
        cases.append({"kind": "ess", "net": net, "entity": "gene" if k % 2 else "reaction",
                      "threshold": None if k % 3 == 2 else rng.choice(["1/2", "1", "5", "0", "0", "0", "1/1024"]),
                      "processes": 2 if k % 7 == 1 else 1})
    return cases


def gen_cases(rng, tier):
    quick = tier == "quick"
    only = os.environ.get("C06_ONLY")
    out = []
    for kind, gen, n in (("del", gen_del, 150 if quick else 2500), ("ess", gen_ess, 90 if quick else 1200)):
        cs = gen(rng, n)
        if only in (None, "", kind):
            out += cs
    return out


def case_term(case):
    if case.get("kind") == "ess":
        return ess_case(case)
    return del_case(case)


def signature(case, codes):
    return {"kind": case.get("kind"), "entity": case.get("entity"), "codes": [c for c in codes if c != 9]}


if __name__ == "__main__":
    sys.exit(lpcheck.main(sys.modules[__name__]))
