"""Driver for C05 / C19: harness/lpcheck.py's `main`, adapted (copied per LP_PROMPT instead of editing the shared file).
Differences: a broken proof obligation / translator failure is reported even when a known finding was seen in the
same run; the correspondence targets are built before the prelude so that a translator failure (which makes
Properties/Cxx.v fail) still leaves the failing-input search runnable."""
import copy
import json
import os
import random
import sys
import time

import common as K
from lpcheck import shrink_net, fix_case  # noqa: F401


def main(mod, argv=None):
    args = K.parse_args(argv)
    rep = K.Reporter(mod.PROP, args.tier, args.seed)
    K.coq_project()
    K.build(list(mod.EXTRA_TARGETS))
    info, broken = K.standard_prelude(mod.PROP, rep, extra_targets=mod.EXTRA_TARGETS)
    rng = random.Random(args.seed)
    t_gen = time.time()
    if args.replay:
        cases = [json.load(open(args.replay))["case"]]
    else:
        cases = []
        corpus = os.path.join(K.VERIF, "corpus", mod.PROP)
        if os.path.isdir(corpus):
            for f in sorted(os.listdir(corpus)):
                if f.endswith(".json"):
                    cases.append(json.load(open(os.path.join(corpus, f)))["case"])
        cases += mod.gen_cases(rng, args.tier)

    def evaluate(cs):
        terms, infos, skipped = [], [], []

        def one(c):
            try:
                return mod.case_term(c)
            except Exception as e:  # implementation crashed in an unforeseen way: report, never hide
                return None, {"harness_exception": "%s: %s" % (type(e).__name__, e)}
        try:
            import cobra  # noqa: F401  (import once in the parent: the forked children share it)
            import cobra.flux_analysis  # noqa: F401
            import cobra.sampling  # noqa: F401
        except Exception:  # noqa
            pass
        # forked children: GLPK now and then aborts the whole process on an internal assertion (bflib/sgf.c)
        for kind, val in K.map_isolated(one, cs):
            if kind == "ok":
                t, inf = val
            else:
                t, inf = None, {"skipped": True, "aborted": val,
                                "stats": {"verdict": "process aborted by the solver library or timed out"}}
            infos.append(inf)
            terms.append(t)
        idx = [i for i, t in enumerate(terms) if t is not None]
        res, faults = K.coq_eval_cases(mod.HEADER, [terms[i] for i in idx], mod.CASE_TYPE, "failing",
                                       shard=getattr(mod, "SHARD", 60), timeout=1500)
        out = {}
        for k, lst in res:
            out[idx[k]] = sorted({code for _, code in lst})
        for i, inf in enumerate(infos):          # codes decided on the Python side (monitors that need no model)
            if inf and inf.get("py_codes"):
                out[i] = sorted(set(out.get(i, [])) | set(inf["py_codes"]))
        return out, faults, infos

    res, faults, infos = evaluate(cases)
    if faults:
        print("HARNESS FAULT: model evaluation failed:\n" + "\n".join(faults[:3]))
        broken.append("model evaluation (coqc on generated cases) failed: " + faults[0][-800:])

    stats = {}
    n_unknown = 0
    skipped = 0
    nontrivial = set()
    for c, inf in zip(cases, infos):
        for k, v in inf.get("stats", {}).items():
            stats.setdefault(k, {})
            stats[k][str(v)] = stats[k].get(str(v), 0) + 1
        if inf.get("skipped"):
            skipped += 1
        elif inf.get("nontrivial", True):
            nontrivial.add(json.dumps(c, sort_keys=True))
        if inf.get("harness_exception"):
            broken.append("harness exception on a case: " + inf["harness_exception"])

    seen = set()
    n_fail = 0
    for idx in sorted(res):
        codes = res[idx]
        if codes == [9]:
            n_unknown += 1
            continue
        n_fail += 1
        want = [c for c in codes if c >= 2 and c != 9] or [1]
        key = tuple(want)
        if key in seen or len(seen) >= 8:
            continue
        seen.add(key)

        def fails(c, want=want):
            r, f, _ = evaluate([c])
            return (not f) and 0 in r and any(w in r[0] for w in want)
        small = cases[idx] if args.replay else shrink_net(cases[idx], fails)
        r2, _, inf2 = evaluate([small])
        codes2 = r2.get(0, codes)
        code = next((c for c in codes2 if c >= 2 and c != 9), codes2[0] if codes2 else want[0])
        replay = {"case": small, "failed": mod.CODES.get(code, str(code)), "codes": codes2,
                  "all_code_meanings": {str(k): v for k, v in mod.CODES.items()},
                  "implementation_observation": inf2[0].get("obs"),
                  "theorem": getattr(mod, "THEOREMS", "")}
        rep.violation(mod.signature(small, codes2), replay)

    extra_cov = mod.extra_monitors(rep, args) if hasattr(mod, "extra_monitors") and not args.replay else {}
    if n_unknown:
        broken.append("%d case(s): exact oracle certificate rejected by the Coq checker (code 9)" % n_unknown)
    if broken and rep.violations == 0:       # (differs from lpcheck.main: known findings do not hide a broken obligation)
        rep.violation({"broken": True}, {"broken_obligations": broken,
                      "note": "a proof obligation, the translator or the correspondence machinery no longer "
                              "checks; no failing input found"}, no_input=True)

    samples = [cases[i] for i in sorted({0, len(cases) // 2, len(cases) - 1})] if cases else []
    evidence = {
        "level": "proof",
        "coverage": {
            "obligations": info["obligations"], "discharged": info["discharged"],
            "checker_cmd": info["checker_cmd"],
            "trusted_base": K.TRUSTED_COMMON + list(getattr(mod, "TRUSTED", [])),
            "axioms_reported_by_Print_Assumptions": info["axioms"],
            "evaluations": len(cases), "distinct_nontrivial": len(nontrivial),
            "rule": mod.RULE, "samples": samples,
            "traces_validated_against_impl": len(cases) - n_fail - skipped - n_unknown,
            "disagreements_checked": n_fail, "exhaustive": False,
            "skipped_ill_conditioned_or_out_of_scope": skipped,
            "oracle_unknown": n_unknown,
            "input_distribution": stats,
            "broken_obligations": broken,
            "case_generation_and_run_s": round(time.time() - t_gen, 1),
            "extra_monitors": extra_cov,
        },
        "assumptions": list(getattr(mod, "ASSUMPTIONS", [])),
    }
    return rep.finish(evidence)
