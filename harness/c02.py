"""C02 — edits do what they document; cross-references stay consistent (see harness/core.py)."""
import os
import sys
sys.path.insert(0, os.path.dirname(os.path.abspath(__file__)))
import core  # noqa: E402
import genes  # noqa: E402  (kernel II: gene bookkeeping, coq/theories/Genes)
import scenarios  # noqa: E402  (fixed small histories outside the reach of the generators)
import groups  # noqa: E402  (kernel III: groups and identifier changes, coq/theories/Groups)
import extras  # noqa: E402  (kernel IV: user constraints / variables, solver switch, merge; coq/theories/Extras)

if __name__ == "__main__":
    sys.exit(core.main(
        "C02", own_codes=[3, 7],
        gen_params={"quick": 500, "thorough": 12000, "len_quick": 16, "len_thorough": 32,
                    "gen": {"ctx_p": 0.05, "weights": {"RemoveRxn": 8, "RemoveMet": 8, "AddSt": 12, "SubSt": 8}}},
        rule="random histories over the op kernel of coq/theories/Core/Model.v weighted towards structural edits "
             "(add/remove reactions and metabolites with remove_orphans / destructive, stoichiometry edits that create and "
             "cancel entries), drawn while executing on the real Model; after EVERY step the object graph (reaction -> "
             "metabolite coefficients, metabolite -> reactions back references, model membership) is compared with the "
             "Gallina model and the Coq-defined cross-reference predicate is evaluated on it; non-trivial = the history "
             "contains an operation other than Enter/Exit/NewRxn; distinct = distinct op lists",
        manifest_trusted=["object identity is one Python object per identifier (enforced by the generator)",
                          "genes kernel: gene objects are compared through identifiers and identity tests on the real "
                          "objects (harness/genes.py observe), not through an object numbering",
                          "groups kernel: the objects of a history are numbered by identity (harness/groups.py observe); "
                          "which of the repaired / unrepaired variants of seven code paths is under test is decided by "
                          "probes on the real implementation (harness/groups.py probe_variant)",
                          "extras kernel: merge's `right` model is built through the public API from a description that is "
                          "also given to the Gallina model; variants by probe (harness/extras.py probe_variant)"],
        extra=[genes.run, groups.run, extras.run, scenarios.run_c02],
        extra_targets=genes.EXTRA_TARGETS + groups.EXTRA_TARGETS + extras.EXTRA_TARGETS))
