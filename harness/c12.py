"""C12 — a copy is equivalent to its original and shares nothing with it.

Implementation side: Model.copy(), copy.deepcopy, pickle round trip, Reaction.copy, Metabolite/Gene.copy and
reaction arithmetic on generated, decorated models (notes / annotation with nested lists, compartments, groups,
user constraints, optionally an open context).

* heap cases (evaluated in Coq, coq/theories/Copy/Check.v): every mutable Python object reachable from the
  operand is given an address and written as a heap cell; after the operation the same objects are re-read and
  the objects reachable from the result are added.  The Gallina model (run with the table regenerated from the
  source) must predict the same content, the same set of shared objects and the same flags (code 1); the
  Coq-defined monitors are evaluated on the implementation's own heap: separation (2), equivalence (3),
  fresh objects pointing at the copy / detached results (4), operand unchanged (5), typing discipline (6).
* Python-side monitors on the same cases: a generic identity probe (every object reachable through
  __dict__/containers, including AST nodes of rules, excluding the optlang solver: none may be reachable from
  both) (11), full observation equality incl. the raw GLPK problem, tolerance and optimum (12).
* frame cases: seeded edit sequences on one side of a copy; the other side's full observation (and optimum)
  must not change (13).  Arithmetic cases: operands unchanged, result detached and sharing nothing (14).
"""
import copy
import json
import logging
import math
import os
import pickle
import random
import sys
import types
import warnings
from fractions import Fraction as F

sys.path.insert(0, os.path.dirname(os.path.abspath(__file__)))
import common as K  # noqa: E402
import gennet  # noqa: E402
import obsmodel  # noqa: E402

sys.path.insert(0, os.path.join(K.REPO, "src"))
warnings.simplefilter("ignore")
logging.disable(logging.CRITICAL)

PROP = "C12"
EXTRA_TARGETS = ["theories/Copy/Check.vo"]
HEADER = """From Coq Require Import List String Bool Arith ZArith.
From Cobra.Copy Require Import Heap Model Obs Check.
Import ListNotations.
Open Scope string_scope."""
CASE_TYPE = "ccase"
CODES = {1: "Gallina model of the copy operation and the implementation differ (content, shared objects or flags)",
         2: "the result shares a mutable object with what existed before the operation",
         3: "the result is not equivalent to the operand (content differs)",
         4: "objects of the result are not fresh objects pointing at the copy / the result is not detached",
         5: "the operation changed its operand",
         6: "input heap outside the typing discipline assumed by the theorems",
         7: "the real heap does not satisfy wf_model_heap, the hypothesis of the general separation / frame theorems "
            "of Model.copy (coq/theories/Copy/CopyWf.v)",
         8: "the real heap does not satisfy wf_model_content, the hypothesis of the general structure theorem of "
            "Model.copy (coq/theories/Copy/CopyWfContent.v)",
         9: "the real heap does not satisfy consistent_b, the hypothesis of the general equivalence theorem "
            "model_copy_equiv (coq/theories/Copy/CopyEquiv.v)",
         11: "identity probe: a mutable Python object is reachable from both the operand and the result",
         12: "full observation (objects, raw GLPK problem, tolerance, optimum) of the copy differs from the original",
         13: "frame: an edit on one model changed the observation of the other",
         14: "reaction arithmetic / copy changed an operand or returned an attached or sharing object",
         15: "the operation raised"}
OPS = {"copy": "OpModelCopy", "deepcopy": "OpDeepcopy", "pickle": "OpPickle", "rcopy": "OpReactionCopy",
       "scopy": "OpSpeciesCopy"}
THEOREMS = ("C12_model_copy_separated, C12_model_copy_frame, C12_model_copy_equiv, C12_model_copy_structure, C12_model_copy_total, "
            "C12_deepcopy_separated, C12_points_to_copy, C12_frame, C12_detached, "
            "C12_table_safe, C12_table_shape (coq/theories/Properties/C12.v)")


# ====================================================================================== cases
def gen_json(rng, depth=0):
    """notes / annotation values: strings, numbers, nested lists and dicts"""
    r = rng.random()
    if depth >= 2 or r < 0.35:
        return rng.choice(["x", "SBO:0000176", "a b", "", "k1", 3, 2.5, True, None])
    if r < 0.75:
        return [gen_json(rng, depth + 1) for _ in range(rng.randrange(0, 3))]
    return {rng.choice(["a", "b", "c"]): gen_json(rng, depth + 1) for _ in range(rng.randrange(0, 3))}


def gen_dict(rng):
    return {k: gen_json(rng) for k in rng.sample(["kegg", "sbo", "refs", "n", "bigg"], rng.randrange(0, 3))}


def gen_case(rng, op, small=False):
    net = gennet.gen_network(rng, max_mets=4 if small else 6, max_rxns=5 if small else 9)
    while len(net["rxns"]) < 2:
        net = gennet.gen_network(rng, max_mets=4 if small else 6, max_rxns=5 if small else 9)
    keys = ["model"] + ["r:" + r["id"] for r in net["rxns"]] + ["m:" + m for m in net["mets"]]
    used = set()
    for r in net["rxns"]:
        used |= {g for g in net["genes"] if g in r.get("gpr", "").replace("(", " ").replace(")", " ").split()}
    genes = sorted(used)
    keys += ["g:" + g for g in genes]
    deco = {"notes": {}, "annotation": {}, "compartments": {}, "groups": [], "user_cons": rng.random() < 0.4,
            "names": {}, "formula": {}}
    for k in keys:
        if rng.random() < 0.5:
            deco["notes"][k] = gen_dict(rng)
        if rng.random() < 0.5:
            deco["annotation"][k] = gen_dict(rng)
        if rng.random() < 0.3:
            deco["names"][k] = rng.choice(["name " + k, "x"])
    for m in net["mets"]:
        if rng.random() < 0.5:
            deco["formula"][m] = rng.choice(["C2H4", "H2O", "C6H12O6"])
    if rng.random() < 0.7:
        deco["compartments"] = {c: rng.choice(["cytosol", "ext", ""]) for c in ("c", "e") if rng.random() < 0.8}
    deco["groups_via_parent"] = rng.random() < 0.3
    ng = rng.randrange(0, 4)
    members_pool = ["r:" + r["id"] for r in net["rxns"]] + ["m:" + m for m in net["mets"]] + ["g:" + g for g in genes]
    for i in range(ng):
        mem = rng.sample(members_pool, min(len(members_pool), rng.randrange(0, 4)))
        if i > 0 and rng.random() < 0.4:
            mem.append("grp:G%d" % rng.randrange(0, i))
        g = {"id": "G%d" % i, "kind": rng.choice(["collection", "classification", "partonomy"]), "members": mem}
        deco["groups"].append(g)
        if rng.random() < 0.5:
            deco["notes"]["grp:" + g["id"]] = gen_dict(rng)
        if rng.random() < 0.5:
            deco["annotation"]["grp:" + g["id"]] = gen_dict(rng)
    if op not in ("frame", "scopy") and genes and rng.random() < 0.3:
        # genes renamed (rename_genes rewrites the rules as syntax trees) to identifiers that are Python keywords or
        # start with a digit: the text form of such a rule needs the escape prefix on its way through the parser
        names = rng.sample(["class", "pass", "as", "else", "return", "1abc", "2_c", "break"], min(2, len(genes)))
        deco["rename"] = dict(zip(rng.sample(genes, len(names)), names))
        deco["copied_before_rename"] = rng.random() < 0.5      # an earlier copy must not influence a later one
    case = {"net": net, "deco": deco, "solver": rng.choice(["glpk", "glpk", "glpk_exact"]),
            "ctx": rng.random() < 0.3, "op": op}
    if op == "rcopy":
        case["target"] = rng.choice([r["id"] for r in net["rxns"]])
    if op == "scopy":
        case["target"] = rng.choice(["m:" + m for m in net["mets"]] + ["g:" + g for g in genes])
    return case


def lookup(model, key):
    if key == "model":
        return model
    k, i = key.split(":", 1)
    return {"r": model.reactions, "m": model.metabolites, "g": model.genes, "grp": model.groups}[k].get_by_id(i)


def build(case):
    from cobra.core import Group
    net, deco = case["net"], case["deco"]
    m = gennet.to_cobra(net, case["solver"])
    for mid, f in deco.get("formula", {}).items():
        if mid in m.metabolites:
            m.metabolites.get_by_id(mid).formula = f
    if deco.get("compartments"):
        m.compartments = dict(deco["compartments"])
    groups = {}
    for g in deco.get("groups", []):
        mem = []
        for k in g["members"]:
            try:
                mem.append(groups[k[4:]] if k.startswith("grp:") else lookup(m, k))
            except KeyError:
                pass
        groups[g["id"]] = Group(g["id"], name="group " + g["id"], members=mem, kind=g["kind"])
    if groups:
        if deco.get("groups_via_parent"):
            # nested groups reach the model through their parent only (add_groups registers the members' groups)
            top = [g for g in groups.values() if not any(g in h.members for h in groups.values() if h is not g)]
            m.add_groups(top or list(groups.values()))
        else:
            m.add_groups(list(groups.values()))
    for what in ("notes", "annotation"):
        for k, v in deco.get(what, {}).items():
            try:
                setattr(lookup(m, k), what, copy.deepcopy(v))
            except KeyError:
                pass
    for k, v in deco.get("names", {}).items():
        try:
            lookup(m, k).name = v
        except KeyError:
            pass
    if deco.get("user_cons") and len(m.reactions):
        r = m.reactions[0]
        v = m.problem.Variable("user_var", lb=0, ub=8)
        c = m.problem.Constraint(r.flux_expression + v, lb=-1000, ub=1000, name="user_con")
        m.add_cons_vars([v, c])
    if deco.get("rename"):
        from cobra.manipulation.modify import rename_genes
        if deco.get("copied_before_rename"):
            import pickle
            pickle.loads(pickle.dumps(m))
            for r in m.reactions:
                r.copy()
        rename_genes(m, {k: v for k, v in deco["rename"].items() if k in m.genes})
    return m


def enter_context(case, m):
    """with model: some reversible edits, still open when the copy is taken"""
    if not case.get("ctx"):
        return
    m.__enter__()
    r = m.reactions[0]
    r.bounds = (min(r.lower_bound, -2.0), max(r.upper_bound, 3.0))
    if len(m.reactions) > 1:
        m.objective = m.reactions[1]


# ====================================================================================== heap encoding
def atom(x):
    if x is None:
        return "None"
    if isinstance(x, bool):
        return "b:%s" % x
    if isinstance(x, (int, float)):
        return "n:%s" % obsmodel.num(x)
    if isinstance(x, str):
        return "s:" + x
    if isinstance(x, (tuple, frozenset)):
        return "t:" + repr(x)
    return None


def coq_str(s):
    s = "".join(ch if 32 <= ord(ch) < 127 else "?" for ch in s)
    return '"' + s.replace('"', '""') + '"'


class Walker:
    """Addresses for mutable Python objects, in breadth-first order of discovery."""
    def __init__(self):
        from cobra import Gene, Metabolite, Model, Reaction
        from cobra.core import DictList, Group
        from cobra.core.gene import GPR
        self.cls = [(Model, "KModel"), (Reaction, "KReaction"), (Metabolite, "KMetabolite"), (Gene, "KGene"),
                    (Group, "KGroup"), (GPR, "KGpr"), (DictList, "KDictList"), (dict, "KDict"), (list, "KList"),
                    (set, "KSet")]
        self.GPR = GPR
        self.objs, self.addr = [], {}

    def kind(self, o):
        for c, k in self.cls:
            if isinstance(o, c):
                return k
        return "KOpaque"

    def refs_of_history(self, hm):
        """the cobra objects the recorded undo actions of a HistoryManager refer to (in order)"""
        cobra_types = tuple(c for c, _ in self.cls[:5])
        out = []

        def grab(x, depth=0):
            if isinstance(x, cobra_types):
                out.append(x)
            elif isinstance(x, (list, tuple, set, frozenset)) and depth < 2:
                for y in x:
                    grab(y, depth + 1)
            elif isinstance(x, dict) and depth < 2:
                for y in x.values():
                    grab(y, depth + 1)
        for f in getattr(hm, "_history", []):
            fn = getattr(f, "func", f)
            grab(getattr(fn, "__self__", None))
            grab(getattr(f, "args", ()))
            grab(getattr(f, "keywords", {}))
            for cell in getattr(fn, "__closure__", None) or ():
                try:
                    grab(cell.cell_contents)
                except ValueError:
                    pass
        return out

    def children(self, o):
        k = self.kind(o)
        if k == "KOpaque" and type(o).__name__ == "HistoryManager":
            return [("", x) for x in self.refs_of_history(o)]
        if k == "KGpr":
            return [("_genes", o._genes)]
        if k in ("KModel", "KReaction", "KMetabolite", "KGene", "KGroup"):
            return list(o.__dict__.items())
        if k == "KDictList":
            return [("", x) for x in list.__iter__(o)]
        if k == "KDict":
            out = []
            for kk, v in o.items():
                out += [(None, kk), (None, v)]
            return out
        if k == "KList":
            return [("", x) for x in o]
        if k == "KSet":
            return [("", x) for x in self.sorted_set(o)]
        return []

    @staticmethod
    def sorted_set(s):
        return sorted(s, key=lambda x: (type(x).__name__, str(getattr(x, "id", x))))

    def visit(self, root):
        queue = [root]
        while queue:
            o = queue.pop(0)
            if atom(o) is not None or id(o) in self.addr:
                continue
            self.addr[id(o)] = len(self.objs)
            self.objs.append(o)
            for _, ch in self.children(o):
                queue.append(ch)
        return self.addr.get(id(root))

    def val(self, x):
        a = atom(x)
        if a is not None:
            return "At %s" % coq_str(a)
        return "Ref %d%%nat" % self.addr[id(x)]

    def cell(self, o):
        k = self.kind(o)
        if k == "KGpr":
            body = "None" if o.body is None else "s:" + o.to_string()
            items = [("At %s" % coq_str("_genes"), self.val(o._genes)), ("At %s" % coq_str("body"), "At %s" % coq_str(body))]
        elif k in ("KModel", "KReaction", "KMetabolite", "KGene", "KGroup"):
            items = [("At %s" % coq_str(n), self.val(v)) for n, v in o.__dict__.items()]
        elif k == "KDictList":
            items = [('At ""', self.val(x)) for x in list.__iter__(o)]
        elif k == "KDict":
            items = [(self.val(kk), self.val(v)) for kk, v in o.items()]
        elif k == "KList":
            items = [('At ""', self.val(x)) for x in o]
        elif k == "KSet":
            items = [(self.val(x), 'At ""') for x in self.sorted_set(o)]
        elif type(o).__name__ == "HistoryManager":
            items = [('At ""', self.val(x)) for x in self.refs_of_history(o)]
        else:
            items = []
        return "mkCell %s [%s]" % (k, "; ".join("(%s, %s)" % kv for kv in items))

    def heap(self):
        return "[" + ";\n ".join(self.cell(o) for o in self.objs) + "]"

    def path(self, a, root_addr):
        """a shortest attribute path from the root to address a (for replay files)"""
        prev = {root_addr: None}
        queue = [root_addr]
        while queue:
            x = queue.pop(0)
            if x == a:
                break
            o = self.objs[x]
            for n, ch in self.children(o):
                if id(ch) in self.addr and self.addr[id(ch)] not in prev:
                    prev[self.addr[id(ch)]] = (x, n, ch)
                    queue.append(self.addr[id(ch)])
        if a not in prev:
            return "?"
        parts = []
        while prev[a] is not None:
            x, n, ch = prev[a]
            lab = ".%s" % n if n else "[%s]" % getattr(ch, "id", "")
            if n is None:
                lab = "{}"
            parts.append(lab)
            a = x
        return "".join(reversed(parts)) or "<root>"


# ====================================================================================== generic identity probe
SKIP_MODULES = ("optlang", "swiglpk", "sympy", "symengine", "numpy", "pandas")


def probe(root):
    """id -> (object, path) of every mutable object reachable from root (solver internals excluded)"""
    seen, out = set(), {}
    stack = [(root, "")]
    while stack:
        o, p = stack.pop()
        if isinstance(o, (int, float, str, bool, type(None), bytes, type, types.ModuleType)) or id(o) in seen:
            continue
        if callable(o) and not hasattr(o, "__dict__") and getattr(o, "__self__", None) is None:
            continue
        mod = type(o).__module__ or ""
        if mod.split(".")[0] in SKIP_MODULES:
            continue
        seen.add(id(o))
        if not isinstance(o, (tuple, frozenset)):
            out[id(o)] = (o, p)
        if isinstance(o, dict):
            for k, v in o.items():
                stack.append((k, p + "{key}"))
                stack.append((v, p + "[%r]" % (getattr(k, "id", k),)))
        elif isinstance(o, (list, tuple, set, frozenset)):
            for i, v in enumerate(o):
                stack.append((v, p + "[%s]" % getattr(v, "id", i)))
        elif hasattr(o, "__dict__"):
            for k, v in vars(o).items():
                stack.append((v, p + "." + k))
        # undo actions: functools.partial objects, bound methods, closures
        if hasattr(o, "func") and hasattr(o, "args"):
            stack.append((o.func, p + ".func"))
            stack.append((o.args, p + ".args"))
            stack.append((getattr(o, "keywords", None), p + ".keywords"))
        if getattr(o, "__self__", None) is not None and not isinstance(o.__self__, type):
            stack.append((o.__self__, p + ".__self__"))
        for k, cell in enumerate(getattr(o, "__closure__", None) or ()):
            try:
                stack.append((cell.cell_contents, p + ".closure%d" % k))
            except ValueError:
                pass
    return out


def shared_objects(a_root, b_root):
    a, b = probe(a_root), probe(b_root)
    return sorted("%s %s <-> %s" % (type(a[i][0]).__name__, a[i][1], b[i][1]) for i in set(a) & set(b))


# ====================================================================================== observations
def jsonable(x):
    if isinstance(x, dict):
        return {str(k): jsonable(v) for k, v in x.items()}
    if isinstance(x, (list, tuple)):
        return [jsonable(v) for v in x]
    if isinstance(x, (set, frozenset)):
        return sorted(str(v) for v in x)
    if isinstance(x, float):
        return obsmodel.num(x)
    if isinstance(x, (int, str, bool, type(None))):
        return x
    return str(x)


def observe(model, optimum=True):
    """obsmodel's observation + notes / annotation / formula of every object + the optimum"""
    obs = obsmodel.observe(model)
    ext = {"model": [jsonable(model.notes), jsonable(model.annotation)]}
    for pre, lst in (("r:", model.reactions), ("m:", model.metabolites), ("g:", model.genes), ("grp:", model.groups)):
        for o in lst:
            ext[pre + str(o.id)] = [jsonable(o.notes), jsonable(o.annotation), jsonable(getattr(o, "formula", None))]
    obs["ext"] = ext
    obs["user"] = sorted(c.name for c in model.constraints if c.name.startswith("user")) + \
        sorted(v.name for v in model.variables if v.name.startswith("user"))
    if optimum:
        try:
            v = model.slim_optimize()
            obs["optimum"] = "nan" if (isinstance(v, float) and math.isnan(v)) else round(float(v), 6)
        except Exception as e:  # noqa
            obs["optimum"] = "exc:" + type(e).__name__
        obs["status"] = model.solver.status
    return obs


def obs_diff(a, b, context=True):
    a, b = dict(a), dict(b)
    if not context:
        a.pop("context_depth", None)
        b.pop("context_depth", None)
    return obsmodel.diff(a, b)


def obs_reaction(r):
    return {"id": r.id, "name": r.name, "bounds": [obsmodel.num(r._lower_bound), obsmodel.num(r._upper_bound)],
            "rule": r.gene_reaction_rule, "subsystem": r.subsystem, "notes": jsonable(r.notes),
            "annotation": jsonable(r.annotation), "model": None if r._model is None else "set",
            "mets": sorted((m.id, obsmodel.num(c), id(m), sorted((x.id, id(x)) for x in m._reaction),
                            None if m._model is None else "set", json.dumps(jsonable(m.notes), sort_keys=True))
                           for m, c in r._metabolites.items()),
            "genes": sorted((g.id, id(g), sorted((x.id, id(x)) for x in g._reaction),
                             None if g._model is None else "set") for g in r._genes)}


# ====================================================================================== running one case
def do_copy(op, m):
    if op == "copy":
        return m.copy()
    if op == "deepcopy":
        return copy.deepcopy(m)
    if op == "pickle":
        return pickle.loads(pickle.dumps(m))
    raise ValueError(op)


def run_heap_case(case):
    """returns (coq term | None, info)"""
    op = case["op"]
    m = build(case)
    enter_context(case, m)
    if op in ("copy", "deepcopy", "pickle"):
        operand = m
    elif op == "rcopy":
        operand = m.reactions.get_by_id(case["target"])
    else:
        operand = lookup(m, case["target"])
    w = Walker()
    root = w.visit(operand)
    h0 = w.heap()
    n0 = len(w.objs)
    before = observe(m) if operand is m else None
    info = {"py_codes": [], "n_cells": n0, "detail": {}}
    try:
        res = do_copy(op, m) if operand is m else operand.copy()
        ok = True
    except Exception as e:  # noqa
        res, ok = operand, False
        info["py_codes"].append(15)
        info["detail"]["exception"] = "%s: %s" % (type(e).__name__, e)
    w.visit(operand)
    res_addr = w.visit(res)
    hp = w.heap()
    term = "(mkCase %s\n %s\n %d%%nat\n %s\n %d%%nat %s)" % (OPS[op], h0, root, hp, res_addr, "true" if ok else "false")
    info["n_cells_after"] = len(w.objs)
    info["walker"] = w
    info["root"], info["res"], info["n0"] = root, res_addr, n0
    if ok:
        sh = shared_objects(operand, res)
        if sh:
            info["py_codes"].append(11)
            info["detail"]["shared_objects"] = sh[:40]
            info["detail"]["n_shared"] = len(sh)
        if operand is m:
            d = obs_diff(before, observe(res), context=False)
            d += obs_diff(before, observe(m))                  # taking the copy did not change the original
            if len(res._contexts) != 0:
                d.append("copy has a non-empty context stack")
            if d:
                info["py_codes"].append(12)
                info["detail"]["observation_diff"] = d[:20]
    if case.get("ctx"):
        try:
            m.__exit__(None, None, None)
        except Exception:
            pass
    return term, info


# ------------------------------------------------------------------ frame cases
def gen_edits(rng, case, n):
    net = case["net"]
    rids = [r["id"] for r in net["rxns"]]
    mids = list(net["mets"])
    keys = ["model"] + ["r:" + r for r in rids] + ["m:" + x for x in mids] + ["g:" + g for g in net.get("genes", [])] + \
        ["grp:" + g["id"] for g in case["deco"]["groups"]]
    edits = []
    kinds = ["bounds", "bounds", "coef", "ko_rxn", "ko_gene", "objective", "direction", "add_rxn", "remove_rxn",
             "add_met", "remove_met", "gpr", "note_set", "note_nested", "annot_set", "annot_nested", "compartment",
             "optimize", "fva", "pfba", "name", "imul", "group_member", "note_nested", "annot_nested", "compartment",
             "remove_group", "tolerance", "medium", "add_rxn_foreign", "add_boundary_foreign"]
    for i in range(n):
        k = rng.choice(kinds)
        if k == "bounds":
            lb = rng.choice([-10.0, -1.0, 0.0, 0.5])
            edits.append([k, rng.choice(rids), lb, lb + rng.choice([0.0, 1.0, 7.0, 1000.0])])
        elif k == "coef":
            edits.append([k, rng.choice(rids), rng.choice(mids), rng.choice([-2.0, -1.0, 0.5, 1.0, 3.0])])
        elif k in ("ko_rxn", "objective", "remove_rxn", "imul"):
            edits.append([k, rng.choice(rids)] + ([rng.choice([2.0, -1.0, 0.5])] if k == "imul" else []))
            if k == "objective" and rng.random() < 0.4:
                edits[-1] = ["objective_mixed", rng.choice(rids), rng.choice(rids)]
        elif k == "ko_gene":
            edits.append([k, rng.choice(net["genes"] or ["g0"])])
        elif k == "direction":
            edits.append([k, rng.choice(["min", "max"])])
        elif k == "add_rxn":
            edits.append([k, "NEW%d" % i, rng.choice(mids), rng.choice(mids)])
        elif k == "add_rxn_foreign":
            edits.append([k, "NEWF%d" % i, rng.choice(mids), rng.choice(mids)])
        elif k == "add_boundary_foreign":
            edits.append([k, rng.choice(mids)])
        elif k == "add_met":
            edits.append([k, "NM%d_c" % i])
        elif k == "remove_met":
            edits.append([k, rng.choice(mids), rng.random() < 0.3])
        elif k == "gpr":
            edits.append([k, rng.choice(rids), rng.choice(["", "gA", "gA and gB", "g0 or gA"])])
        elif k in ("note_set", "annot_set"):
            edits.append([k, rng.choice(keys), rng.choice(["kegg", "zz"]), rng.choice(["v", 7])])
        elif k in ("note_nested", "annot_nested"):
            edits.append([k, rng.choice(keys)])
        elif k == "compartment":
            edits.append([k, rng.choice(["c", "e", "x"]), rng.choice(["changed", "other"])])
        elif k == "name":
            edits.append([k, rng.choice(keys), "renamed%d" % i])
        elif k == "group_member":
            edits.append([k, rng.choice(rids)])
        elif k == "tolerance":
            edits.append([k, rng.choice([1e-6, 1e-8])])
        else:
            edits.append([k])
    return edits


def apply_edit(m, e, other=None):
    from cobra import Metabolite, Reaction
    from cobra.flux_analysis import flux_variability_analysis, pfba
    k = e[0]
    if k == "bounds":
        m.reactions.get_by_id(e[1]).bounds = (e[2], e[3])
    elif k == "coef":
        m.reactions.get_by_id(e[1]).add_metabolites({m.metabolites.get_by_id(e[2]): e[3]}, combine=True)
    elif k == "ko_rxn":
        m.reactions.get_by_id(e[1]).knock_out()
    elif k == "ko_gene":
        m.genes.get_by_id(e[1]).knock_out()
    elif k == "objective":
        m.objective = m.reactions.get_by_id(e[1])
    elif k == "objective_mixed":
        # an objective expression that mixes a variable of this model with one of the OTHER model (documented: foreign
        # variables are cloned onto this model); may raise, must not take anything away from the other model
        r_own = m.reactions.get_by_id(e[1])
        r_for = other.reactions.get_by_id(e[2]) if (other is not None and e[2] in other.reactions) else r_own
        m.objective = r_own.flux_expression + 0.5 * r_for.flux_expression
    elif k == "direction":
        m.objective_direction = e[1]
    elif k == "add_rxn":
        r = Reaction(e[1], lower_bound=0, upper_bound=5)
        r.add_metabolites({m.metabolites.get_by_id(e[2]): -1.0})
        if e[3] != e[2]:
            r.add_metabolites({m.metabolites.get_by_id(e[3]): 1.0})
        r.notes = {"new": [1]}
        m.add_reactions([r])
    elif k == "add_rxn_foreign":
        # a new reaction for THIS model written with metabolite objects looked up in the OTHER model
        src = other if other is not None else m
        r = Reaction(e[1], lower_bound=0, upper_bound=5)
        r.add_metabolites({src.metabolites.get_by_id(e[2]): -1.0})
        if e[3] != e[2]:
            r.add_metabolites({src.metabolites.get_by_id(e[3]): 1.0})
        m.add_reactions([r])
    elif k == "add_boundary_foreign":
        src = other if other is not None else m
        m.add_boundary(src.metabolites.get_by_id(e[1]), type="demand")
    elif k == "remove_rxn":
        m.remove_reactions([m.reactions.get_by_id(e[1])], remove_orphans=True)
    elif k == "add_met":
        m.add_metabolites([Metabolite(e[1], compartment="c")])
    elif k == "remove_met":
        m.remove_metabolites([m.metabolites.get_by_id(e[1])], destructive=e[2])
    elif k == "gpr":
        m.reactions.get_by_id(e[1]).gene_reaction_rule = e[2]
    elif k == "note_set":
        lookup(m, e[1]).notes[e[2]] = e[3]
    elif k == "annot_set":
        lookup(m, e[1]).annotation[e[2]] = e[3]
    elif k in ("note_nested", "annot_nested"):
        d = lookup(m, e[1]).notes if k == "note_nested" else lookup(m, e[1]).annotation
        hit = False
        for kk, v in list(d.items()):
            if isinstance(v, list):
                v.append("appended")
                hit = True
            elif isinstance(v, dict):
                v["added"] = ["deep"]
                hit = True
        if not hit:
            d["fresh"] = ["x"]
    elif k == "compartment":
        m.compartments = {e[1]: e[2]}
        m._compartments[e[1] + "2"] = e[2]
    elif k == "optimize":
        m.optimize()
    elif k == "fva":
        flux_variability_analysis(m, processes=1)
    elif k == "pfba":
        pfba(m)
    elif k == "name":
        lookup(m, e[1]).name = e[2]
    elif k == "imul":
        r = m.reactions.get_by_id(e[1])
        r *= e[2]
    elif k == "group_member":
        if len(m.groups):
            m.groups[0].add_members([m.reactions.get_by_id(e[1])])
    elif k == "remove_group":
        if len(m.groups):
            m.remove_groups([m.groups[-1]])
    elif k == "tolerance":
        m.tolerance = e[1]
    elif k == "medium":
        med = m.medium
        m.medium = {kk: v / 2 for kk, v in med.items()}
    else:
        raise ValueError(k)


def run_frame_case(case):
    m = build(case)
    enter_context(case, m)
    try:
        c = do_copy(case["how"], m)
    except Exception as ex:  # noqa  -- a copy operation that raises on a model the public API built is a violation
        return [{"step": -1, "edit": ["copy:" + case["how"]], "diff": ["raised %s: %s" % (type(ex).__name__, ex)]}], {}
    edited, other = (c, m) if case["side"] == "copy" else (m, c)
    base = observe(other)
    stats, fails = {}, []
    for step, e in enumerate(case["edits"]):
        try:
            apply_edit(edited, e, other)
            stats[e[0]] = stats.get(e[0], 0) + 1
        except Exception as ex:  # noqa  (an edit may legitimately fail: missing id, infeasible problem ...)
            stats["raised:" + type(ex).__name__] = stats.get("raised:" + type(ex).__name__, 0) + 1
        d = obs_diff(base, observe(other))
        strays = [v.name for v in other.variables if v.problem is not other.solver] + \
                 [c_.name for c_ in other.constraints if c_.problem is not other.solver]
        if strays:
            d = list(d) + ["solver objects of the untouched model now belong to another problem: %s" % strays[:4]]
        if d:
            fails.append({"step": step, "edit": e, "diff": d[:8]})
            break
    if not fails and case.get("ctx") and case["side"] == "orig":
        # leaving the context that was open at copy time must not reach the copy either
        try:
            m.__exit__(None, None, None)
        except Exception:
            pass
        d = obs_diff(base, observe(other))
        if d:
            fails.append({"step": len(case["edits"]), "edit": ["exit_context"], "diff": d[:8]})
    sh = shared_objects(m, c)
    if sh and not fails:
        fails.append({"step": len(case["edits"]), "edit": ["identity_probe_after_edits"], "diff": sh[:8]})
    return fails, stats


# ------------------------------------------------------------------ arithmetic cases
def run_arith_case(case):
    m = build(case)
    rs = list(m.reactions)
    r1 = m.reactions.get_by_id(case["r1"])
    r2 = m.reactions.get_by_id(case["r2"])
    if case["detached"] == "removed":
        # the first operand was taken out of its model (its genes and metabolites stay there)
        m.remove_reactions([r1])
        if r2 is r1:
            r2 = r1.copy()
    if case["detached"] in ("both", "first"):
        r1 = r1.copy()
    if case["detached"] in ("both", "second"):
        r2 = r2.copy()
    b1, b2, bm = obs_reaction(r1), obs_reaction(r2), observe(m)
    fails = []
    try:
        if case["aop"] == "add":
            x = r1 + r2
        elif case["aop"] == "sub":
            x = r1 - r2
        elif case["aop"] == "mul":
            x = r1 * case["coef"]
        elif case["aop"] == "sum":
            x = sum([r1, r2])
        elif case["aop"] == "add0":          # the start value of sum(): r + 0, 0 + r, sum([r])
            x = r1 + 0
        elif case["aop"] == "radd0":
            x = 0 + r1
        elif case["aop"] == "sum1":
            x = sum([r1])
        else:
            x = r1.copy()
    except Exception as e:  # noqa
        return [{"what": "raised", "detail": "%s: %s" % (type(e).__name__, e)}], {}
    if obs_reaction(r1) != b1:
        fails.append({"what": "first operand changed", "before": b1, "after": obs_reaction(r1)})
    if obs_reaction(r2) != b2:
        fails.append({"what": "second operand changed", "before": b2, "after": obs_reaction(r2)})
    d = obs_diff(bm, observe(m))
    if d:
        fails.append({"what": "model changed", "diff": d[:8]})
    if x._model is not None or any(y._model is not None for y in x._metabolites) or any(g._model is not None for g in x._genes):
        fails.append({"what": "result (or its metabolites / genes) has a model"})
    for other, name in ((r1, "first operand"), (r2, "second operand"), (m, "model")):
        sh = shared_objects(other, x)
        if sh:
            fails.append({"what": "result shares objects with the " + name, "shared": sh[:8]})
    # the value: stoichiometry by id
    def st(r):
        return {y.id: F(c) for y, c in r._metabolites.items()}
    s1, s2 = st(r1), st(r2)
    if case["aop"] in ("add", "sum"):
        want = {k: s1.get(k, 0) + s2.get(k, 0) for k in set(s1) | set(s2)}
    elif case["aop"] == "sub":
        want = {k: s1.get(k, 0) - s2.get(k, 0) for k in set(s1) | set(s2)}
    elif case["aop"] == "mul":
        want = {k: v * F(case["coef"]) for k, v in s1.items()}
    else:
        want = s1
    want = {k: v for k, v in want.items() if v != 0}
    if st(x) != want:
        fails.append({"what": "stoichiometry of the result", "got": {k: str(v) for k, v in st(x).items()},
                      "want": {k: str(v) for k, v in want.items()}})
    return fails, {}


# ====================================================================================== driver
def evaluate_heap(cases):
    terms, infos = [], []
    for c in cases:
        t, info = run_heap_case(c)
        terms.append(t)
        infos.append(info)
    res, faults = K.coq_eval_cases(HEADER, terms, CASE_TYPE, "failing", shard=SHARD)
    return res, faults, infos


SHARD = 12


def shrink_heap(case, codes):
    """greedy structural shrinking keeping at least one of the failing codes"""
    def fails(cs):
        res, faults, infos = evaluate_heap(cs)
        bad = {}
        if not faults:
            for i, lst in res:
                bad[i] = {code for _, code in lst}
        for i, info in enumerate(infos):
            if info["py_codes"]:
                bad.setdefault(i, set()).update(info["py_codes"])
        return {i for i, s in bad.items() if s & codes}
    cur = case
    for _ in range(6):
        cands = []
        net, deco = cur["net"], cur["deco"]
        for i in range(len(net["rxns"])):
            if cur.get("target") == net["rxns"][i]["id"] or len(net["rxns"]) <= 1:
                continue
            c = json.loads(json.dumps(cur))
            del c["net"]["rxns"][i]
            cands.append(c)
        for what in ("notes", "annotation", "names", "formula"):
            for k in list(deco.get(what, {})):
                c = json.loads(json.dumps(cur))
                del c["deco"][what][k]
                cands.append(c)
        for i in range(len(deco.get("groups", []))):
            c = json.loads(json.dumps(cur))
            gid = c["deco"]["groups"][i]["id"]
            del c["deco"]["groups"][i]
            for g in c["deco"]["groups"]:
                g["members"] = [x for x in g["members"] if x != "grp:" + gid]
            cands.append(c)
        for flag in ("ctx",):
            if cur.get(flag):
                c = json.loads(json.dumps(cur))
                c[flag] = False
                cands.append(c)
        if deco.get("user_cons"):
            c = json.loads(json.dumps(cur))
            c["deco"]["user_cons"] = False
            cands.append(c)
        if deco.get("compartments"):
            c = json.loads(json.dumps(cur))
            c["deco"]["compartments"] = {}
            cands.append(c)
        if not cands:
            break
        try:
            f = fails(cands)
        except Exception:
            break
        if not f:
            break
        # jump as far as possible: apply the first successful candidate, then retry
        cur = cands[min(f)]
    return cur


def describe_shared(info, coq_shared):
    w = info["walker"]
    out = []
    for a in coq_shared[:30]:
        out.append("%s  original%s  ==  copy%s" % (type(w.objs[a]).__name__, w.path(a, info["root"]), w.path(a, info["res"])))
    return out


def main(argv=None):
    args = K.parse_args(argv)
    rep = K.Reporter(PROP, args.tier, args.seed)
    info, broken = K.standard_prelude(PROP, rep, extra_targets=EXTRA_TARGETS)
    check_ok = os.path.exists(os.path.join(K.COQ, "theories/Copy/Check.vo")) and \
        os.path.exists(os.path.join(K.THEORIES, "Gen", "CopyTables.vo"))
    if not check_ok:
        ok2, out2 = K.build(EXTRA_TARGETS)
        check_ok = ok2
        if not ok2:
            broken.append("coq/theories/Copy/Check.v does not build: " + out2[-800:])
    rng = random.Random(args.seed)
    quick = args.tier == "quick"

    heap_cases, frame_cases, arith_cases = [], [], []
    if args.replay:
        rp = json.load(open(args.replay))
        kind = rp.get("kind", "heap")
        {"heap": heap_cases, "frame": frame_cases, "arith": arith_cases}[kind].append(rp["case"])
    else:
        corpus = os.path.join(K.VERIF, "corpus", PROP)
        if os.path.isdir(corpus):
            for f in sorted(os.listdir(corpus)):
                rp = json.load(open(os.path.join(corpus, f)))
                {"heap": heap_cases, "frame": frame_cases, "arith": arith_cases}[rp.get("kind", "heap")].append(rp["case"])
        n_heap = 30 if quick else 200
        for i in range(n_heap):
            for op in ("copy", "deepcopy", "pickle"):
                heap_cases.append(gen_case(rng, op, small=(i % 3 == 0)))
        for i in range(20 if quick else 150):
            heap_cases.append(gen_case(rng, "rcopy", small=(i % 2 == 0)))
            heap_cases.append(gen_case(rng, "scopy", small=(i % 2 == 0)))
        for i in range(110 if quick else 1200):
            c = gen_case(rng, "frame", small=(i % 3 == 0))
            c["how"] = ["copy", "copy", "deepcopy", "pickle"][i % 4]
            c["side"] = "copy" if i % 2 == 0 else "orig"
            c["edits"] = gen_edits(rng, c, rng.randrange(4, 11 if quick else 25))
            frame_cases.append(c)
        for i in range(160 if quick else 1600):
            c = gen_case(rng, "arith", small=True)
            ids = [r["id"] for r in c["net"]["rxns"]]
            c["r1"], c["r2"] = rng.choice(ids), rng.choice(ids)
            c["aop"] = ["add", "sub", "mul", "sum", "rcopy", "add0", "radd0", "sum1"][i % 8]
            c["coef"] = rng.choice([2.0, -1.0, 0.5, -2.0])
            c["detached"] = ["none", "both", "second", "first", "removed"][(i // 8) % 5]
            c["ctx"] = False
            arith_cases.append(c)

    # ---------------- heap cases: implementation + model in Coq
    violations = []   # (kind, case, codes, detail)
    dist = {"ops": {}, "cells": [], "ctx": 0, "groups": 0, "user_cons": 0, "solver": {}}
    res, faults, infos = ([], [], [])
    n_heap_ok = 0
    if heap_cases and check_ok:
        res, faults, infos = evaluate_heap(heap_cases)
        if faults:
            print("HARNESS FAULT: model evaluation failed:\n" + "\n".join(faults[:2]))
            broken.append("model evaluation (coqc on generated cases) failed: " + faults[0][-600:])
    elif heap_cases:
        infos = [run_heap_case(c)[1] for c in heap_cases]
    by_case = {i: sorted({code for _, code in lst}) for i, lst in res}
    for i, (c, inf) in enumerate(zip(heap_cases, infos)):
        dist["ops"][c["op"]] = dist["ops"].get(c["op"], 0) + 1
        dist["cells"].append(inf["n_cells"])
        dist["ctx"] += bool(c.get("ctx"))
        dist["groups"] += bool(c["deco"]["groups"])
        dist["user_cons"] += bool(c["deco"]["user_cons"])
        dist["solver"][c["solver"]] = dist["solver"].get(c["solver"], 0) + 1
        codes = by_case.get(i, []) + inf["py_codes"]
        if codes:
            violations.append(("heap", c, codes, inf))
        else:
            n_heap_ok += 1

    # ---------------- frame cases
    edit_stats, n_frame_ok, n_aborted = {}, 0, 0
    for c in frame_cases:
        try:
            # in a forked child: the analyses among the edits (FVA, pFBA) can make GLPK abort the process
            how, got = K.run_isolated(run_frame_case, c, timeout=600)
            if how == "aborted":
                n_aborted += 1
                edit_stats["case_aborted_by_solver_library"] = edit_stats.get("case_aborted_by_solver_library", 0) + 1
                continue
            fails, st = got
        except Exception as e:  # noqa
            fails, st = [{"step": -1, "edit": ["harness"], "diff": ["%s: %s" % (type(e).__name__, e)]}], {}
        for k, v in st.items():
            edit_stats[k] = edit_stats.get(k, 0) + v
        if fails:
            violations.append(("frame", c, [13], {"detail": {"frame": fails}}))
        else:
            n_frame_ok += 1
    arith_stats, n_arith_ok = {}, 0
    for c in arith_cases:
        key = "%s/%s" % (c["aop"], c["detached"])
        arith_stats[key] = arith_stats.get(key, 0) + 1
        try:
            fails, _ = run_arith_case(c)
        except Exception as e:  # noqa
            fails = [{"what": "harness", "detail": "%s: %s" % (type(e).__name__, e)}]
        if fails:
            violations.append(("arith", c, [14], {"detail": {"arith": fails}}))
        else:
            n_arith_ok += 1

    # ---------------- report (one replay per distinct signature, shrunk)
    seen = set()
    for kind, c, codes, inf in violations:
        sig = signature(kind, c, codes, inf)
        key = json.dumps(sig, sort_keys=True)
        if key in seen or len(seen) >= 10:
            continue
        seen.add(key)
        small, inf2, codes2 = c, inf, codes
        if kind == "heap" and not args.replay and check_ok:
            small = shrink_heap(c, set(codes))
            r2, f2, i2 = evaluate_heap([small])
            codes2 = sorted({code for _, l2 in r2 for _, code in l2}) + i2[0]["py_codes"] or codes
            inf2 = i2[0]
        elif kind == "frame" and not args.replay:
            small = shrink_frame(c)
            inf2 = {"detail": {"frame": run_frame_case(small)[0]}}
        replay = {"kind": kind, "case": small, "codes": codes2, "failed": [CODES[x] for x in codes2],
                  "detail": inf2.get("detail", {}), "theorem": THEOREMS}
        if kind == "heap" and "walker" in inf2 and check_ok:
            replay["model_predicts_shared"] = predicted(small, inf2)
        rep.violation(signature(kind, small, codes2, inf2), replay)

    if broken and rep.violations == 0:      # known findings never hide a broken obligation
        rep.violation({"broken": True}, {"broken_obligations": broken,
                      "note": "a proof obligation, the generated-table side condition or the correspondence machinery "
                              "no longer checks; no failing input found"}, no_input=True)

    n_eval = len(heap_cases) + len(frame_cases) + len(arith_cases)
    cells = dist.pop("cells")
    dist["heap_cells_min_median_max"] = [min(cells), sorted(cells)[len(cells) // 2], max(cells)] if cells else []
    samples = []
    for lst in (heap_cases, frame_cases, arith_cases):
        if lst:
            samples.append(lst[len(lst) // 2])
    evidence = {
        "level": "proof",
        "coverage": {
            "obligations": info["obligations"], "discharged": info["discharged"], "checker_cmd": info["checker_cmd"],
            "trusted_base": K.TRUSTED_COMMON + [
                "the heap encoder of harness/c12.py (which attributes / containers become cells) and the attribute "
                "tables regenerated by harness/tables_copy.py",
                "the optlang solver deep copy is opaque in the model; observed through the raw GLPK problem and the optimum",
                "pickle is modelled like deepcopy (same __getstate__/__setstate__/__reduce__ hooks)"],
            "axioms_reported_by_Print_Assumptions": info["axioms"],
            "evaluations": n_eval,
            "distinct_nontrivial": len({json.dumps(c, sort_keys=True) for c in heap_cases + frame_cases + arith_cases}),
            "rule": "heap cases: random networks (harness/gennet.py) decorated with notes/annotation (nested lists and "
                    "dicts), names, formulas, compartments, groups (incl. nested), a user variable+constraint, "
                    "optionally an open context; op in copy/deepcopy/pickle/Reaction.copy/Species.copy; every case is "
                    "executed on the implementation, encoded as a heap, and evaluated by the Gallina model and the "
                    "Coq monitors.  frame cases: copy + seeded edit sequence on one side, other side observed after "
                    "every step.  arithmetic cases: + - * sum copy with operands in a model or detached.  "
                    "non-trivial = every case (each has at least one reaction); distinct = distinct case JSON",
            "samples": samples,
            "traces_validated_against_impl": n_heap_ok + n_frame_ok + n_arith_ok,
            "disagreements_checked": len(violations),
            "exhaustive": False,
            "heap_cases": len(heap_cases), "frame_cases": len(frame_cases), "arith_cases": len(arith_cases),
            "input_distribution": dist, "edit_distribution": edit_stats, "arith_distribution": arith_stats,
            "broken_obligations": broken,
        },
        "assumptions": ["attributes that user code attaches to objects beyond the classes' own are outside the model",
                        "the solver deep copy (optlang) is not modelled; it is observed through the raw problem",
                        "AST nodes of gene rules are abstracted to the rule text in the Coq heap (the Python identity "
                        "probe does walk them)"],
    }
    return rep.finish(evidence)


def predicted(case, inf):
    """ask the model which old cells the result shares (addresses -> paths)"""
    try:
        t, info = run_heap_case(case)
        import tempfile
        tmp = tempfile.mkdtemp(prefix="verif_c12_")
        p = os.path.join(tmp, "pred.v")
        open(p, "w").write(HEADER + "\nEval vm_compute in (predicted_shared %s)." % t)
        rc, out = K.sh(["coqc"] + K.COQ_FLAGS + [p], cwd=tmp, timeout=300)
        import shutil
        shutil.rmtree(tmp, ignore_errors=True)
        m = K.RESULT_RE.search(out)
        if rc != 0 or not m:
            return ["<model evaluation failed>"]
        return describe_shared(info, sorted(K.parse_coq_list(m.group(1))))
    except Exception as e:  # noqa
        return ["<%s>" % e]


def shrink_frame(case):
    cur = case
    fails, _ = run_frame_case(cur)
    if not fails:
        return cur
    step = fails[0]["step"]
    cur = dict(cur, edits=cur["edits"][:step + 1])
    i = 0
    while i < len(cur["edits"]) - 1:
        cand = dict(cur, edits=cur["edits"][:i] + cur["edits"][i + 1:])
        try:
            f, _ = run_frame_case(cand)
        except Exception:
            f = []
        if f:
            cur = cand
        else:
            i += 1
    return cur


def signature(kind, case, codes, inf):
    sig = {"kind": kind, "codes": sorted(codes)}
    if kind == "heap":
        sig["op"] = case["op"]
    if kind == "frame":
        sig["how"] = case["how"]
        fr = inf.get("detail", {}).get("frame") or [{}]
        sig["edit"] = (fr[0].get("edit") or ["?"])[0]
    if kind == "arith":
        sig["aop"] = case["aop"]
        sig["detached"] = case["detached"]
    return sig


if __name__ == "__main__":
    sys.exit(main())
